//! C16 correspondence + oracle: every name in every role.
use crate::proj::{self, ItemKind, ModuleFacts};
use crate::report::{Report, RunCfg};
use crate::util::*;
use serde_json::json;

pub const ROLES: [&str; 6] = ["module", "type", "component", "alternative", "enumeral", "value"];

#[derive(Clone, Debug)]
pub struct Case {
    pub role: &'static str,
    pub name: String,
    /// index into TYPE_BODIES (type role only)
    pub body: usize,
}

fn upper_first(s: &str) -> String {
    let mut c = s.chars();
    match c.next() {
        Some(f) => f.to_ascii_uppercase().to_string() + c.as_str(),
        None => String::new(),
    }
}
fn lower_first(s: &str) -> String {
    let mut c = s.chars();
    match c.next() {
        Some(f) => f.to_ascii_lowercase().to_string() + c.as_str(),
        None => String::new(),
    }
}

/// X.680: typereference / modulereference start upper-case, identifier / valuereference lower-case
fn shape_for_role(role: &str, raw: &str) -> String {
    match role {
        "module" | "type" => upper_first(raw),
        _ => lower_first(raw),
    }
}

fn valid_asn_name(s: &str) -> bool {
    let b = s.as_bytes();
    !b.is_empty()
        && b[0].is_ascii_alphabetic()
        && b.iter().all(|c| c.is_ascii_alphanumeric() || *c == b'-')
        && !s.contains("--")
        && !s.ends_with('-')
}

pub const TYPE_BODIES: [&str; 11] = [
    "SEQUENCE { m BOOLEAN }", "INTEGER", "SET { m BOOLEAN }", "CHOICE { m BOOLEAN }", "ENUMERATED { m }", "BOOLEAN",
    "SEQUENCE OF BOOLEAN", "OCTET STRING", "Base-Type", "INTEGER (0..7)", "BIT STRING",
];

impl Case {
    /// type-role cases live in a module of their own (many modules per source)
    fn type_module(&self, id: usize) -> String {
        format!(
            "TM{id} DEFINITIONS AUTOMATIC TAGS ::= BEGIN Base{id}-Type ::= NULL {} ::= {} END",
            self.name,
            TYPE_BODIES[self.body % TYPE_BODIES.len()].replace("Base-Type", &format!("Base{id}-Type"))
        )
    }
    fn asn(&self, id: usize) -> String {
        match self.role {
            "type" => unreachable!(),
            "component" => format!("S{id} ::= SEQUENCE {{ {} BOOLEAN }}", self.name),
            "alternative" => format!("C{id} ::= CHOICE {{ {} BOOLEAN }}", self.name),
            "enumeral" => format!("E{id} ::= ENUMERATED {{ {} }}", self.name),
            "value" => format!("{} INTEGER ::= {}", self.name, 1_000_000 + id),
            _ => unreachable!(),
        }
    }
}

const KEYWORDS: [&str; 57] = [
    "as", "break", "const", "continue", "crate", "else", "enum", "extern", "false", "fn", "for", "if", "impl", "in", "let", "loop", "match", "mod",
    "move", "mut", "pub", "ref", "return", "self", "Self", "static", "struct", "super", "trait", "true", "type", "unsafe", "use", "where", "while",
    "async", "await", "dyn", "abstract", "become", "box", "do", "final", "macro", "override", "priv", "typeof", "unsized", "virtual", "yield", "try",
    "union", "gen", "raw", "safe", "default", "auto",
];

pub fn gen_cases(cfg: &RunCfg) -> Vec<Case> {
    let mut raw: Vec<String> = Vec::new();
    for k in KEYWORDS {
        raw.push(k.to_string());
        raw.push(format!("{k}-x"));
        raw.push(format!("x-{k}"));
        raw.push(upper_first(k));
        raw.push(k.to_uppercase());
        // the escape the generator puts in front of a keyword, written by the user
        raw.push(format!("r-{k}"));
    }
    for n in ["r-flag", "flag", "r-r-limit", "r-2", "rX", "r", "R", "r-", "r1", "r-r", "R-flag", "r-Flag", "rr-flag", "r-r-r", "r-x-r"] {
        if valid_asn_name(n) {
            raw.push(n.to_string());
        }
    }
    // exhaustive: all valid names of length ≤ 3 (thorough ≤ 4) over {a, B, 1, -}
    let alpha = ['a', 'B', '1', '-'];
    let maxlen = if cfg.thorough { 5 } else { 4 };
    let mut frontier: Vec<String> = vec![String::new()];
    for _ in 0..maxlen {
        let mut next = Vec::new();
        for f in &frontier {
            for a in alpha {
                let mut s = f.clone();
                s.push(a);
                next.push(s);
            }
        }
        raw.extend(next.iter().filter(|s| valid_asn_name(s)).cloned());
        frontier = next;
    }
    // seeded random identifiers ≤ 24 chars: case changes, digits next to case changes, single hyphens
    let mut rng = Rng::new(cfg.seed ^ 0xC16);
    let n = cfg.budget(1500, 20000);
    let pool: Vec<char> = "abcxyzABCXYZ019".chars().collect();
    for _ in 0..n {
        let len = 1 + rng.below(24);
        let mut s = String::new();
        while s.len() < len {
            if !s.is_empty() && !s.ends_with('-') && rng.chance(1, 6) && s.len() + 1 < len {
                s.push('-');
            } else {
                let c = *rng.pick(&pool);
                if s.is_empty() && c.is_ascii_digit() {
                    continue;
                }
                s.push(c);
            }
        }
        // sometimes embed a keyword as a word
        if rng.chance(1, 8) {
            s = format!("{}-{}", rng.pick(&KEYWORDS), s);
        }
        if valid_asn_name(&s) {
            raw.push(s);
        }
    }
    let mut cases: Vec<Case> = Vec::new();
    let mut seen = std::collections::BTreeSet::new();
    for (i, r) in raw.iter().enumerate() {
        for (j, role) in ROLES.iter().enumerate() {
            // every keyword / small name in every role; random names in a rotating role
            if i < 57 * 5 + 400 || (i + j) % ROLES.len() == 0 {
                let name = shape_for_role(role, r);
                // keyword-derived names meet every type body; other names one body in rotation
                let bodies: Vec<usize> = if *role == "type" && i < 57 * 5 { (0..TYPE_BODIES.len()).collect() } else { vec![i % TYPE_BODIES.len()] };
                for body in bodies {
                    let body = if *role == "type" { body } else { 0 };
                    if seen.insert((role, name.clone(), body)) {
                        cases.push(Case { role, name: name.clone(), body });
                    }
                }
            }
        }
    }
    cases
}

struct Obs {
    ident: String,
    ann: Option<String>,
}

fn ann_of(a: &proj::Attrs) -> Option<String> {
    a.get("identifier").map(|v| v.trim_matches('"').to_string())
}

fn observe(m: &ModuleFacts, c: &Case, id: usize) -> Result<Obs, String> {
    match c.role {
        "component" => match m.item(&format!("S{id}")).map(|i| &i.kind) {
            Some(ItemKind::Struct { fields, .. }) if fields.len() == 1 => {
                Ok(Obs { ident: fields[0].name.clone(), ann: ann_of(&fields[0].attrs) })
            }
            o => Err(format!("S{id}: {o:?}")),
        },
        "alternative" | "enumeral" => {
            let n = if c.role == "alternative" { format!("C{id}") } else { format!("E{id}") };
            match m.item(&n).map(|i| &i.kind) {
                Some(ItemKind::Enum { variants }) if variants.len() == 1 => {
                    Ok(Obs { ident: variants[0].name.clone(), ann: ann_of(&variants[0].attrs) })
                }
                o => Err(format!("{n}: {o:?}")),
            }
        }
        "value" => {
            let lit = (1_000_000 + id).to_string();
            for it in &m.items {
                match &it.kind {
                    ItemKind::Const { init, .. } | ItemKind::Static { init, .. } if init.contains(&lit) => {
                        return Ok(Obs { ident: it.name.clone(), ann: None });
                    }
                    _ => {}
                }
            }
            Err(format!("no constant with literal {lit}"))
        }
        _ => Err("role".into()),
    }
}

pub fn run(cfg: &RunCfg) -> Report {
    let mut rep = Report::new(
        "C16",
        "every Rust strict/reserved/weak keyword (plain, hyphenated, capitalised, upper-case) in every role {module, type, component, alternative, enumeral, value}; every keyword also at the use sites of its identifier (variant in a From impl under generate_from_impls, function named by a default attribute, variant in an ENUMERATED constant); all legal ASN.1 names of length ≤4 (thorough ≤5) over {a,B,1,-}; seeded random names ≤24 chars; non-trivial = compiled and the identifier (and identifier annotation) was read back from the syn projection; distinct = distinct (role, name)",
    );
    if let Some(r) = &cfg.replay {
        let r = r.get("case").unwrap_or(r);
        if r["role"].as_str() == Some("import-site") {
            import_sites(&mut rep);
            return rep;
        }
        if r["role"].as_str() == Some("use-site") {
            use_sites(&[r["name"].as_str().unwrap_or("type").to_string()], &mut rep);
            return rep;
        }
    }
    let cases: Vec<Case> = if let Some(r) = &cfg.replay {
        let r = r.get("case").unwrap_or(r);
        let role = ROLES.iter().find(|x| **x == r["role"].as_str().unwrap_or("")).expect("role");
        vec![Case { role, name: r["name"].as_str().expect("name").to_string(), body: r["body"].as_u64().unwrap_or(0) as usize }]
    } else {
        gen_cases(cfg)
    };
    rep.exhaustive = cfg.replay.is_none();
    let rcfg = rasn_compiler::prelude::RasnConfig::default();
    let mut requests = Vec::new();
    let mut meta: Vec<(usize, Obs)> = Vec::new();

    // module role: many tiny modules in one source, bisected on failure
    let mod_idx: Vec<usize> = (0..cases.len()).filter(|i| cases[*i].role == "module").collect();
    let other_idx: Vec<usize> = (0..cases.len()).filter(|i| cases[*i].role != "module" && cases[*i].role != "type").collect();
    // the linker keys definitions by bare name across modules (C10's finding): keep the names of one
    // source distinct, so order the type cases by body first
    let mut type_idx: Vec<usize> = (0..cases.len()).filter(|i| cases[*i].role == "type").collect();
    type_idx.sort_by_key(|i| (cases[*i].body, *i));
    {
        let render = |idx: &[usize]| vec![idx.iter().map(|k| cases[type_idx[*k]].type_module(type_idx[*k])).collect::<Vec<_>>().join("\n")];
        for (idx, outcome) in batch_compile(type_idx.len(), 40, &render, &rcfg) {
            match outcome {
                Outcome::Ok { generated, .. } => match proj::project(&generated) {
                    Ok(mods) => {
                        for k in idx {
                            let i = type_idx[k];
                            rep.evaluations += 1;
                            let mname = format!("tm{i}");
                            let Some(m) = mods.iter().find(|m| m.name == mname) else {
                                rep.unsat("", false, json!({"why": "module lost", "role": "type", "name": cases[i].name}));
                                continue;
                            };
                            let items: Vec<&proj::ItemFacts> = m
                                .items
                                .iter()
                                .filter(|it| matches!(it.kind, ItemKind::Struct { .. } | ItemKind::Enum { .. }) && it.name != format!("Base{i}Type") && !it.attrs.docs.iter().any(|d| d.contains("Anonymous")))
                                .collect();
                            if items.len() == 1 {
                                rep.count(&format!("type-body:{}", TYPE_BODIES[cases[i].body % TYPE_BODIES.len()]));
                                meta.push((i, Obs { ident: items[0].name.clone(), ann: ann_of(&items[0].attrs) }));
                            } else {
                                rep.count("unobserved");
                                rep.harness_errors.push(format!("type `{}`: {} candidate items", cases[i].name, items.len()));
                            }
                        }
                    }
                    Err(e) => {
                        for k in idx {
                            rep.evaluations += 1;
                            rep.unsat("", false, json!({"why": format!("generated text is not a sequence of Rust items: {e}"), "role": "type", "name": cases[type_idx[k]].name}));
                        }
                    }
                },
                Outcome::Err(e) => {
                    rep.evaluations += 1;
                    rep.count("compile-err");
                    rep.sample(json!({"compile_err": e, "role": "type", "name": cases[type_idx[idx[0]]].name}));
                }
                Outcome::Panic(p) => {
                    rep.evaluations += 1;
                    rep.unsat("", false, json!({"why": format!("panic: {p}"), "role": "type", "name": cases[type_idx[idx[0]]].name}));
                }
            }
        }
    }
    {
        let render = |idx: &[usize]| {
            vec![idx
                .iter()
                .map(|k| format!("{} DEFINITIONS AUTOMATIC TAGS ::= BEGIN Marker{} ::= NULL END", cases[mod_idx[*k]].name, mod_idx[*k]))
                .collect::<Vec<_>>()
                .join("\n")]
        };
        for (idx, outcome) in batch_compile(mod_idx.len(), 40, &render, &rcfg) {
            match outcome {
                Outcome::Ok { generated, .. } => match proj::project(&generated) {
                    Ok(mods) => {
                        for k in idx {
                            let i = mod_idx[k];
                            rep.evaluations += 1;
                            let marker = format!("Marker{i}");
                            match mods.iter().find(|m| m.items.iter().any(|it| it.name == marker)) {
                                Some(m) => meta.push((i, Obs { ident: m.name.clone(), ann: None })),
                                None => rep.unsat("", false, json!({"why": "module lost", "role": "module", "name": cases[i].name})),
                            }
                        }
                    }
                    Err(e) => {
                        for k in idx {
                            rep.evaluations += 1;
                            rep.unsat("", false, json!({"why": format!("generated text is not a sequence of Rust items: {e}"), "role": "module", "name": cases[mod_idx[k]].name}));
                        }
                    }
                },
                Outcome::Err(e) => {
                    rep.evaluations += 1;
                    rep.count("compile-err");
                    rep.sample(json!({"compile_err": e, "role": "module", "name": cases[mod_idx[idx[0]]].name}));
                }
                Outcome::Panic(p) => {
                    rep.evaluations += 1;
                    rep.unsat("", false, json!({"why": format!("panic: {p}"), "role": "module", "name": cases[mod_idx[idx[0]]].name}));
                }
            }
        }
    }
    {
        let render = |idx: &[usize]| {
            vec![format!(
                "C16-Mod DEFINITIONS AUTOMATIC TAGS ::= BEGIN\n{}\nEND\n",
                idx.iter().map(|k| cases[other_idx[*k]].asn(other_idx[*k])).collect::<Vec<_>>().join("\n")
            )]
        };
        for (idx, outcome) in batch_compile(other_idx.len(), 60, &render, &rcfg) {
            match outcome {
                Outcome::Ok { generated, .. } => match proj::project(&generated) {
                    Ok(mods) => {
                        let Some(m) = mods.first() else { continue };
                        for k in idx {
                            let i = other_idx[k];
                            rep.evaluations += 1;
                            match observe(m, &cases[i], i) {
                                Ok(o) => meta.push((i, o)),
                                Err(e) => {
                                    rep.count("unobserved");
                                    rep.harness_errors.push(format!("{} `{}`: {e}", cases[i].role, cases[i].name));
                                }
                            }
                        }
                    }
                    Err(e) => {
                        if idx.len() == 1 {
                            let i = other_idx[idx[0]];
                            rep.evaluations += 1;
                            rep.unsat("", false, json!({"why": format!("generated text is not a sequence of Rust items: {e}"), "role": cases[i].role, "name": cases[i].name}));
                        } else {
                            // isolate: recompile one by one
                            for k in idx {
                                let i = other_idx[k];
                                rep.evaluations += 1;
                                if let Outcome::Ok { generated, .. } = compile_rasn(&render(&[k])) {
                                    match proj::project(&generated) {
                                        Ok(mods) => {
                                            if let Some(m) = mods.first() {
                                                if let Ok(o) = observe(m, &cases[i], i) {
                                                    meta.push((i, o));
                                                }
                                            }
                                        }
                                        Err(e) => rep.unsat("", false, json!({"why": format!("generated text is not a sequence of Rust items: {e}"), "role": cases[i].role, "name": cases[i].name})),
                                    }
                                }
                            }
                        }
                    }
                },
                Outcome::Err(e) => {
                    rep.evaluations += 1;
                    rep.count("compile-err");
                    rep.sample(json!({"compile_err": e, "role": cases[other_idx[idx[0]]].role, "name": cases[other_idx[idx[0]]].name}));
                }
                Outcome::Panic(p) => {
                    let i = other_idx[idx[0]];
                    rep.evaluations += 1;
                    rep.unsat("", false, json!({"why": format!("panic (Ident::new on an illegal identifier?): {p}"), "role": cases[i].role, "name": cases[i].name}));
                }
            }
        }
    }
    for (i, o) in &meta {
        let c = &cases[*i];
        requests.push(format!("c16 {} {} {} {}", c.role, hex(&c.name), hex(&o.ident), sx_opt(&o.ann.as_ref().map(|a| hex(a)))));
    }
    let answers = match run_driver(&requests) {
        Ok(a) => a,
        Err(e) => {
            rep.harness_errors.push(e);
            return rep;
        }
    };
    for (k, ans) in answers.iter().enumerate() {
        let (i, o) = &meta[k];
        let c = &cases[*i];
        // `<modelIdent> <modelAnnotation> <legal> <recoverable> <asn1ident>`; the annotation may be `(some x..)`
        let toks: Vec<&str> = ans.split(' ').collect();
        if toks.len() < 5 {
            rep.harness_errors.push(format!("driver answer `{ans}` for `{}`", requests[k]));
            continue;
        }
        let model_ident = unhex(toks[0]).unwrap_or_default();
        let n = toks.len();
        let (legal, recoverable, is_asn) = (toks[n - 3] == "t", toks[n - 2] == "t", toks[n - 1] == "t");
        let model_ann: Option<String> = if toks[1] == "none" { None } else { unhex(toks[1].trim_start_matches("(some").trim()).or_else(|| toks.get(2).and_then(|t| unhex(t.trim_end_matches(')')))) };
        rep.distinct.insert(format!("{}:{}:{}", c.role, c.name, c.body));
        rep.count(&format!("role:{}", c.role));
        if o.ident != c.name {
            rep.count("renamed");
        }
        let case_json = json!({"role": c.role, "name": c.name, "body": c.body, "type_body": if c.role == "type" { TYPE_BODIES[c.body % TYPE_BODIES.len()] } else { "" }, "observed_ident": o.ident, "observed_annotation": o.ann, "model_ident": model_ident, "model_annotation": model_ann});
        if k % 499 == 0 {
            rep.sample(case_json.clone());
        }
        if !is_asn {
            rep.count("not-an-asn1-name(not judged)");
            continue;
        }
        let agree = model_ident == o.ident && model_ann == o.ann;
        if !agree {
            rep.disagree(case_json.clone());
        }
        if !legal {
            rep.unsat("", agree, json!({"why": "generated identifier is not a legal non-keyword Rust identifier", "case": case_json}));
        } else if !recoverable {
            rep.unsat("", agree, json!({"why": "ASN.1 name neither equals the identifier nor is carried by an identifier annotation", "case": case_json}));
        }
    }
    if cfg.replay.is_none() {
        let mut names: Vec<String> = KEYWORDS.iter().map(|k| k.to_string()).collect();
        names.extend(KEYWORDS.iter().take(12).map(|k| format!("{k}-x")));
        use_sites(&names, &mut rep);
        import_sites(&mut rep);
        scan_names(cfg, &mut rep);
    }
    rep
}

/// The lexer's name scanners (`type_reference`, `identifier`, `value_reference`, through the hook `scan_name`) against
/// the Lean model `Lexer/Names`, and against X.680 §12: a name followed by something that cannot continue it is taken
/// whole; nothing that is not a name of the kind asked for is taken.
fn scan_names(cfg: &RunCfg, rep: &mut Report) {
    let mut rng = Rng::new(cfg.seed ^ 0xC16_5CA);
    let stoppers = ["", " ", " ::= INTEGER", "::=", ",", "}", "{", "(1)", ".&Type", "-", "- x", "--c\nd", "-\n", "_x", "é", "\u{2d}\u{2d}", "\t", "\r\n", ";", "<", "-é", "-_", "/*c*/", ":"];
    let keywords = ["SEQUENCE", "BIT", "CHARACTER", "CONTAINING", "ABSTRACT-SYNTAX", "TYPE-IDENTIFIER", "INTEGER", "END", "BEGIN", "ANY", "BY", "DEFINED", "MACRO", "TAGS", "FROM", "IMPORTS", "DATE-TIME", "OID-IRI", "PLUS-INFINITY", "MINUS-INFINITY", "NOT-A-NUMBER", "TIME-OF-DAY", "RELATIVE-OID-IRI"];
    let mut inputs: Vec<(u8, String, Option<(String, bool)>)> = Vec::new(); // (kind, text, Some((name, keyword)) when the text is name ++ stopper)
    let seg = |rng: &mut Rng| -> String {
        let n = 1 + rng.below(5);
        (0..n).map(|_| *rng.pick(&['a', 'b', 'z', 'A', 'Q', 'Z', '0', '7', '9', 'k', 'M'])).collect()
    };
    let n = cfg.budget(1500, 30000);
    for k in 0..n {
        let kind = (k % 3) as u8;
        let mut name = String::new();
        let first_upper = match kind { 0 => true, 2 => false, _ => rng.chance(1, 2) };
        name.push(if first_upper { *rng.pick(&['A', 'T', 'Z', 'M']) } else { *rng.pick(&['a', 't', 'z', 'm']) });
        if rng.chance(3, 4) {
            name.push_str(&seg(&mut rng));
        }
        for _ in 0..rng.below(4) {
            name.push('-');
            name.push_str(&seg(&mut rng));
        }
        if (k / 3) % 9 == 8 {
            name = rng.pick(&keywords).to_string();
            if rng.chance(1, 3) {
                name.push_str(["x", "-2", "S"][rng.below(3)]);
            }
        }
        let st = stoppers[(k / 3 + k / 7) % stoppers.len()];
        let is_kw = keywords.contains(&name.as_str());
        let kind_ok = match kind { 0 => name.starts_with(|c: char| c.is_ascii_uppercase()), 2 => name.starts_with(|c: char| c.is_ascii_lowercase()), _ => true };
        inputs.push((kind, format!("{name}{st}"), if kind_ok { Some((name.clone(), is_kw)) } else { None }));
        // malformed neighbours of the same name
        match (k / 3) % 7 {
            0 => inputs.push((kind, format!("{name}-"), None)),
            1 => inputs.push((kind, format!("{name}--{name}"), None)),
            2 => inputs.push((kind, format!("1{name}"), None)),
            3 => inputs.push((kind, format!("-{name}"), None)),
            4 => inputs.push((kind, format!("é{name}"), None)),
            5 => inputs.push(((kind + 1) % 3, format!("{name}{st}"), None)),
            _ => inputs.push((kind, format!("{}{st}", name.to_lowercase()), None)),
        }
    }
    for kw in keywords {
        inputs.push((0, kw.to_string(), Some((kw.to_string(), true))));
        inputs.push((0, format!("{kw} "), Some((kw.to_string(), true))));
        inputs.push((0, format!("{kw}-"), None));
    }
    inputs.push((0, String::new(), None));
    inputs.push((1, String::new(), None));
    inputs.push((2, "-".into(), None));
    let reqs: Vec<String> = inputs.iter().map(|(k, t, _)| format!("scanname {k} {}", hex(t))).collect();
    let answers = match run_driver(&reqs) {
        Ok(a) => a,
        Err(e) => {
            rep.harness_errors.push(e);
            return;
        }
    };
    for ((kind, text, want), ans) in inputs.iter().zip(answers.iter()) {
        rep.evaluations += 1;
        let t2 = text.clone();
        let k2 = *kind;
        let real = match std::panic::catch_unwind(move || rasn_compiler::verif_hooks::scan_name(k2, &t2)) {
            Ok(r) => r,
            Err(_) => {
                rep.unsat("", false, json!({"why": "the name scanner panics", "case": {"role": "scan-name", "kind": kind, "text": text}}));
                continue;
            }
        };
        let real_s = match &real {
            Some((n, used)) => format!("{} {used}", hex(n)),
            None => "none".into(),
        };
        rep.count(&format!("scan-name:kind{kind}:{}", if real.is_some() { "taken" } else { "refused" }));
        let agree = &real_s == ans;
        if !agree {
            rep.disagree(json!({"case": {"role": "scan-name", "kind": kind, "text": text}, "model": ans, "implementation": real_s, "model_of": "Lexer.Names (type_reference / identifier / value_reference)"}));
        }
        if let Some((name, is_kw)) = want {
            // whether the stopper really stops is decided by the text itself: the next character is no letter / digit, and
            // no hyphen leading on to one
            let rest = &text[name.len()..];
            let mut rc = rest.chars();
            let stops = match rc.next() {
                None => true,
                Some(c) if c.is_ascii_alphanumeric() => false,
                Some('-') => !rc.next().map(|d| d.is_ascii_alphanumeric()).unwrap_or(false),
                Some(_) => true,
            };
            if !stops {
                continue;
            }
            let expect = if *kind == 0 && *is_kw { "none".to_string() } else { format!("{} {}", hex(name), name.len()) };
            if real_s != expect {
                rep.unsat("", agree, json!({"why": format!("X.680 12.2-12.4: the name `{name}` stands at the start of the text and is followed by something that cannot continue it; the scanner answers {real_s}"), "case": {"role": "scan-name", "kind": kind, "text": text}}));
            }
        }
    }
}

/// an imported type is named in the `use` line of the importing module exactly as its item is spelled
fn import_sites(rep: &mut Report) {
    let names = ["Cause-radio-network", "Sha-256digest", "Self", "Station-Type", "X-509", "Ab-c-d", "A1-b2", "My-UUID", "Type", "Box", "Option-x"];
    for (k, n) in names.iter().enumerate() {
        let srcs = vec![
            format!("Prov-Mod DEFINITIONS AUTOMATIC TAGS ::= BEGIN\n{n} ::= INTEGER (0..7)\nEND\n"),
            format!("User-Mod DEFINITIONS AUTOMATIC TAGS ::= BEGIN\nIMPORTS {n} FROM Prov-Mod;\nHolder{k} ::= SEQUENCE {{ f {n} }}\nEND\n"),
            // the same type named with its module in front: as component, as the governor of a value, with a DEFAULT
            format!("Qual-Mod DEFINITIONS AUTOMATIC TAGS ::= BEGIN\nQh{k} ::= SEQUENCE {{ f Prov-Mod.{n}, g Prov-Mod.{n} DEFAULT 2 }}\nqual-val{k} Prov-Mod.{n} ::= 3\nEND\n"),
        ];
        rep.evaluations += 1;
        rep.count("import-site");
        let case = json!({"role": "import-site", "name": n, "body": 0});
        match compile_rasn(&srcs) {
            Outcome::Ok { generated, .. } => match crate::modset::module_items(&generated) {
                Ok(mods) => {
                    let prov: Vec<String> = mods.iter().find(|(m, _)| m == "provmod").map(|(_, it)| it.iter().map(|x| x.0.clone()).collect()).unwrap_or_default();
                    let user = mods.iter().find(|(m, _)| m == "usermod").map(|(_, it)| it.clone()).unwrap_or_default();
                    let mut named = Vec::new();
                    for (id, text) in &user {
                        if id == "use" {
                            let t: String = text.chars().filter(|c| !c.is_whitespace()).collect();
                            if let Some(rest) = t.strip_prefix("usesuper::") {
                                if let Some((_, syms)) = rest.trim_end_matches(';').split_once("::") {
                                    named.extend(syms.trim_start_matches('{').trim_end_matches('}').split(',').filter(|x| !x.is_empty()).map(String::from));
                                }
                            }
                        }
                    }
                    if named.is_empty() {
                        rep.unsat("", false, json!({"why": format!("the module importing `{n}` has no use line for it"), "case": case}));
                    }
                    for sym in named.iter().filter(|x| *x != "*") {
                        if !prov.contains(sym) {
                            rep.unsat("", false, json!({"why": format!("the use line names `{sym}` for the imported type `{n}`; the providing module declares {:?}", prov.iter().filter(|p| *p != "use" && *p != "extern").collect::<Vec<_>>()), "case": case}));
                        }
                    }
                    // the module-qualified mentions: every path ends in an item the provider declares
                    let qual = mods.iter().find(|(m, _)| m == "qualmod").map(|(_, it)| it.clone()).unwrap_or_default();
                    let mut seen_q = 0;
                    for (id, text) in qual.iter().filter(|(id, _)| id == &format!("Qh{k}") || id.to_uppercase() == format!("QUAL_VAL{k}")) {
                        let sq: String = text.chars().filter(|c| !c.is_whitespace()).collect();
                        for (at, _) in sq.match_indices("prov_mod::") {
                            seen_q += 1;
                            let name: String = sq[at + 10..].chars().take_while(|c| c.is_alphanumeric() || *c == '_').collect();
                            if !prov.contains(&name) {
                                rep.unsat("", false, json!({"why": format!("`{id}` mentions `prov_mod::{name}` for `Prov-Mod.{n}`; the providing module declares {:?}", prov.iter().filter(|p| *p != "use" && *p != "extern").collect::<Vec<_>>()), "case": case}));
                            }
                        }
                    }
                    if seen_q < 2 {
                        rep.unsat("", false, json!({"why": format!("the items of the module that writes `Prov-Mod.{n}` do not name the provider's item by path (items: {:?})", qual.iter().map(|x| x.0.clone()).collect::<Vec<_>>()), "case": case}));
                    }
                    // and the field mentions the same item
                    if let Some((_, text)) = user.iter().find(|(id, _)| id == &format!("Holder{k}")) {
                        let sq: String = text.chars().filter(|c| !c.is_whitespace()).collect();
                        let fty: String = sq.split("pubf:").nth(1).unwrap_or("").chars().take_while(|c| c.is_alphanumeric() || *c == '_').collect();
                        if !prov.contains(&fty) {
                            rep.unsat("", false, json!({"why": format!("the component of imported type `{n}` is typed `{fty}`; the providing module declares {:?}", prov.iter().filter(|p| *p != "use" && *p != "extern").collect::<Vec<_>>()), "case": case}));
                        }
                    }
                }
                Err(e) => rep.unsat("", false, json!({"why": format!("generated text is not a sequence of Rust items: {e}"), "case": case})),
            },
            Outcome::Err(e) => {
                rep.count("import-site:compile-err");
                rep.sample(json!({"compile_err": e, "name": n}));
            }
            Outcome::Panic(p) => rep.unsat("", false, json!({"why": format!("panic: {p}"), "case": case})),
        }
    }
}

/// Where a generated identifier is *used* it must be spelled as where it is declared: the variant named in a
/// `From` impl (option generate_from_impls), the function named in a `default = ".."` attribute, the variant named
/// in the constant of an ENUMERATED value — for every keyword as the ASN.1 name.
fn use_sites(names: &[String], rep: &mut Report) {
    for chunk in names.chunks(20) {
        let cfg = rasn_compiler::prelude::RasnConfig { generate_from_impls: true, ..Default::default() };
        let mut body = String::new();
        for (k, n) in chunk.iter().enumerate() {
            body.push_str(&format!("Uc{k} ::= CHOICE {{ {n} INTEGER, other BOOLEAN }}\nUs{k} ::= SEQUENCE {{ {n} INTEGER DEFAULT 5 }}\nUe{k} ::= ENUMERATED {{ {n}, other }}\nuv{k} Ue{k} ::= {n}\n"));
        }
        let src = format!("Use-Mod DEFINITIONS AUTOMATIC TAGS ::= BEGIN\n{body}END\n");
        let outcome = compile_rasn_cfg(&[src], cfg);
        let case = |n: &str| json!({"role": "use-site", "name": n, "body": 0});
        match outcome {
            Outcome::Ok { generated, .. } => match proj::project(&generated) {
                Ok(mods) => {
                    let Some(m) = mods.first() else { continue };
                    for (k, n) in chunk.iter().enumerate() {
                        rep.evaluations += 1;
                        rep.count("use-site");
                        let variants_of = |item: &str| -> Vec<String> {
                            match m.item(item).map(|i| &i.kind) {
                                Some(ItemKind::Enum { variants }) => variants.iter().map(|v| v.name.clone()).collect(),
                                _ => vec![],
                            }
                        };
                        // (1) From impls of the CHOICE
                        let cv = variants_of(&format!("Uc{k}"));
                        let mut impls = 0;
                        for it in &m.items {
                            if let ItemKind::Impl { trait_: Some(t), self_ty, body } = &it.kind {
                                if t.starts_with("From") && self_ty == &format!("Uc{k}") {
                                    impls += 1;
                                    let sq: String = body.chars().filter(|c| !c.is_whitespace()).collect();
                                    let used: Option<String> = sq.split("Self::").nth(1).map(|r| r.chars().take_while(|c| c.is_alphanumeric() || *c == '_' || *c == '#').collect());
                                    if !used.as_ref().is_some_and(|u| cv.contains(u)) {
                                        rep.unsat("", false, json!({"why": format!("the From impl of CHOICE Uc{k} builds variant {:?}, the enum declares {:?}", used, cv), "case": case(n)}));
                                    }
                                }
                            }
                        }
                        if impls != 2 {
                            rep.unsat("", false, json!({"why": format!("CHOICE Uc{k} with two distinct payload types has {impls} From impls under generate_from_impls"), "case": case(n)}));
                        }
                        // (2) default function of the SEQUENCE member
                        if let Some(ItemKind::Struct { fields, .. }) = m.item(&format!("Us{k}")).map(|i| &i.kind) {
                            let named = fields.first().and_then(|f| f.attrs.get("default")).map(|v| v.trim_matches('"').to_string());
                            let exists = named.as_ref().is_some_and(|f| m.items.iter().any(|it| matches!(it.kind, ItemKind::Fn { .. }) && &it.name == f));
                            if !exists {
                                rep.unsat("", false, json!({"why": format!("member `{n}` of Us{k}: default = {:?} names no generated function", named), "case": case(n)}));
                            }
                        } else {
                            rep.unsat("", false, json!({"why": format!("SEQUENCE Us{k} is missing"), "case": case(n)}));
                        }
                        // (3) the constant of the ENUMERATED value
                        let ev = variants_of(&format!("Ue{k}"));
                        let init = m.item(&format!("UV{k}")).and_then(|i| match &i.kind {
                            ItemKind::Const { init, .. } | ItemKind::Static { init, .. } => Some(init.chars().filter(|c| !c.is_whitespace()).collect::<String>()),
                            _ => None,
                        });
                        let used = init.as_ref().and_then(|i| i.split("::").last().map(|x| x.trim_end_matches(')').to_string()));
                        if !used.as_ref().is_some_and(|u| ev.contains(u)) {
                            rep.unsat("", false, json!({"why": format!("value uv{k} of ENUMERATED Ue{k} is {:?}, the enum declares {:?}", init, ev), "case": case(n)}));
                        }
                    }
                }
                Err(e) => {
                    if chunk.len() == 1 {
                        rep.evaluations += 1;
                        rep.unsat("", false, json!({"why": format!("generated text (generate_from_impls) is not a sequence of Rust items: {e}"), "case": case(&chunk[0])}));
                    } else {
                        for n in chunk {
                            use_sites(&[n.clone()], rep);
                        }
                    }
                }
            },
            Outcome::Err(e) => {
                if chunk.len() == 1 {
                    // not every Rust keyword is an ASN.1 identifier (`Self`)
                    rep.count("use-site:not-asn1");
                    rep.sample(json!({"compile_err": e, "name": chunk[0]}));
                } else {
                    for n in chunk {
                        use_sites(&[n.clone()], rep);
                    }
                }
            }
            Outcome::Panic(p) => {
                if chunk.len() == 1 {
                    rep.unsat("", false, json!({"why": format!("panic: {p}"), "case": case(&chunk[0])}));
                } else {
                    for n in chunk {
                        use_sites(&[n.clone()], rep);
                    }
                }
            }
        }
    }
}

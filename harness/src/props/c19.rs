//! C19: backend options change only what they document.
use crate::modset::*;
use crate::report::{Report, RunCfg};
use crate::util::*;
use rasn_compiler::prelude::*;
use serde_json::{json, Value};

#[derive(Clone, Debug)]
pub struct Opt {
    pub opaque: bool,
    pub wildcard: bool,
    pub from_impls: bool,
    pub no_std: bool,
    pub custom: Vec<String>,
    pub annotations: Vec<String>,
}

impl Opt {
    pub fn to_cfg(&self) -> RasnConfig {
        RasnConfig {
            opaque_open_types: self.opaque,
            default_wildcard_imports: self.wildcard,
            generate_from_impls: self.from_impls,
            no_std_compliant_bindings: self.no_std,
            custom_imports: self.custom.clone(),
            type_annotations: self.annotations.clone(),
        }
    }
    pub fn sx(&self) -> String {
        format!(
            "( {} {} {} {} {} {} )",
            sx_bool(self.opaque),
            sx_bool(self.wildcard),
            sx_bool(self.from_impls),
            sx_bool(self.no_std),
            sx_list(self.custom.iter().map(|s| hex(s))),
            sx_list(self.annotations.iter().map(|s| hex(s)))
        )
    }
    pub fn to_json(&self) -> Value {
        json!({"opaque": self.opaque, "wildcard": self.wildcard, "from_impls": self.from_impls, "no_std": self.no_std, "custom": self.custom, "annotations": self.annotations})
    }
    pub fn from_json(v: &Value) -> Opt {
        let strs = |x: &Value| x.as_array().map(|a| a.iter().filter_map(|s| s.as_str().map(String::from)).collect()).unwrap_or_default();
        Opt {
            opaque: v["opaque"].as_bool().unwrap_or(true),
            wildcard: v["wildcard"].as_bool().unwrap_or(false),
            from_impls: v["from_impls"].as_bool().unwrap_or(false),
            no_std: v["no_std"].as_bool().unwrap_or(false),
            custom: strs(&v["custom"]),
            annotations: strs(&v["annotations"]),
        }
    }
}

const DEFAULT_ANN: &str = "#[derive(AsnType, Debug, Clone, Decode, Encode, PartialEq, Eq, Hash)]";

pub fn all_opts() -> Vec<Opt> {
    let customs: [Vec<String>; 3] = [vec![], vec!["my::module::*".into()], vec!["path::to::Thing".into(), "other::{A, B}".into(), "core::fmt".into()]];
    let annots: [Vec<String>; 8] = [
        // a derive of a trait the generator implements by hand for all-DEFAULT types
        vec![DEFAULT_ANN.into(), "#[derive(Default)]".into()],
        vec![DEFAULT_ANN.into()],
        // extra derives
        vec!["#[derive(AsnType, Debug, Clone, Decode, Encode, PartialEq, Eq, Hash, PartialOrd, Ord)]".into()],
        // extra non-derive attributes
        vec![DEFAULT_ANN.into(), "#[allow(dead_code)]".into(), "#[cfg_attr(feature = \"serde\", derive(serde::Serialize))]".into()],
        // derives listed twice, over two lines, one of them oddly spaced
        vec![DEFAULT_ANN.into(), "# [ derive ( Eq ,, Hash , PartialOrd , PartialOrd ) ]".into(), "#[derive(Hash, Copy)]".into()],
        // user derives whose names merely contain the names of built-in ones
        vec![DEFAULT_ANN.into(), "#[derive(CopyGetters, DeepCopy, PartialEqual, Hashable, Cloned, EqIsh)]".into()],
        // no derive line at all
        vec!["#[allow(clippy::all)]".into()],
        vec![],
    ];
    let mut out = Vec::new();
    for bits in 0..16u32 {
        for c in &customs {
            for a in &annots {
                out.push(Opt { opaque: bits & 1 == 0, wildcard: bits & 2 != 0, from_impls: bits & 4 != 0, no_std: bits & 8 != 0, custom: c.clone(), annotations: a.clone() });
            }
        }
    }
    out
}

fn strip_ws(s: &str) -> String {
    s.chars().filter(|c| !c.is_whitespace()).collect()
}

/// projection of one compilation: s-expressions of the modules (name, uses, items)
pub fn project_modules(generated: &str) -> Result<Vec<(String, String)>, String> {
    let file = syn::parse_file(generated).map_err(|e| format!("generated text does not parse: {e}"))?;
    let mut mods = Vec::new();
    for it in &file.items {
        let syn::Item::Mod(m) = it else { continue };
        let mut uses = Vec::new();
        let mut items = Vec::new();
        for i in m.content.as_ref().map(|c| c.1.as_slice()).unwrap_or(&[]) {
            match i {
                syn::Item::Use(u) => uses.push(hex(&strip_ws(&crate::proj::ts(&u.tree)))),
                syn::Item::ExternCrate(_) => {}
                syn::Item::Struct(_) | syn::Item::Enum(_) => {
                    let (attrs, ident, body_tokens, variants): (&Vec<syn::Attribute>, String, String, Vec<(String, String)>) = match i {
                        syn::Item::Struct(s) => (&s.attrs, s.ident.to_string(), format!("struct{}{}", crate::proj::ts(&s.generics), crate::proj::ts(&s.fields)), vec![]),
                        syn::Item::Enum(e) => (
                            &e.attrs,
                            e.ident.to_string(),
                            format!("enum{}", e.variants.iter().map(|v| crate::proj::ts(v)).collect::<Vec<_>>().join(",")),
                            e.variants
                                .iter()
                                .filter_map(|v| match &v.fields {
                                    syn::Fields::Unnamed(u) if u.unnamed.len() == 1 => Some((v.ident.to_string(), strip_ws(&crate::proj::ts(&u.unnamed[0].ty)))),
                                    _ => None,
                                })
                                .collect(),
                        ),
                        _ => unreachable!(),
                    };
                    let mut user_attrs = Vec::new();
                    let mut fixed = Vec::new();
                    let mut choice = false;
                    for a in attrs {
                        let p = a.path();
                        let text = strip_ws(&format!("#[{}]", crate::proj::ts(&a.meta)));
                        if p.is_ident("rasn") || p.is_ident("doc") || p.is_ident("non_exhaustive") {
                            if p.is_ident("rasn") && text.contains("choice") {
                                choice = true;
                            }
                            fixed.push(text);
                        } else {
                            user_attrs.push(hex(&text));
                        }
                    }
                    let rest = format!("{}|{}", fixed.join(""), body_tokens);
                    items.push(format!(
                        "( ty {} {} {} {} {} )",
                        hex(&ident),
                        sx_list(user_attrs),
                        hex(&rest),
                        sx_bool(choice),
                        sx_list(variants.iter().map(|(v, p)| format!("( {} {} )", hex(v), hex(p))))
                    ));
                }
                syn::Item::Impl(im) => {
                    let tr = im.trait_.as_ref().map(|(_, p, _)| strip_ws(&crate::proj::ts(p))).unwrap_or_default();
                    if let Some(payload) = tr.strip_prefix("From<").and_then(|r| r.strip_suffix('>')) {
                        let body = strip_ws(&im.items.iter().map(|x| crate::proj::ts(x)).collect::<String>());
                        // fn from(value: T) -> Self { Self::Variant(value) }
                        let variant = body.split("Self::").nth(1).map(|r| r.chars().take_while(|c| c.is_alphanumeric() || *c == '_').collect::<String>()).unwrap_or_default();
                        items.push(format!("( from {} {} {} )", hex(&strip_ws(&crate::proj::ts(&im.self_ty))), hex(&variant), hex(payload)));
                    } else {
                        items.push(format!("( other {} )", hex(&crate::proj::ts(im))));
                    }
                }
                syn::Item::Static(s) => {
                    let ty = strip_ws(&crate::proj::ts(&s.ty));
                    let init = strip_ws(&crate::proj::ts(&s.expr));
                    match (ty.strip_prefix("LazyLock<").and_then(|r| r.strip_suffix('>')), init.strip_prefix("LazyLock::new(||").and_then(|r| r.strip_suffix(')'))) {
                        (Some(t), Some(e)) => items.push(format!("( lazy {} {} {} f )", hex(&s.ident.to_string()), hex(&format!("{}{}", static_head(&s), t)), hex(e))),
                        _ => items.push(format!("( other {} )", hex(&crate::proj::ts(s)))),
                    }
                }
                syn::Item::Macro(mac) if mac.mac.path.is_ident("lazy_static") => {
                    // lazy_static! { #comments pub static ref NAME: T = e; }
                    let inner = mac.mac.tokens.to_string().replacen("static ref ", "static ", 1);
                    match syn::parse_str::<syn::ItemStatic>(&inner) {
                        Ok(s) if mac.attrs.is_empty() => items.push(format!("( lazy {} {} {} t )", hex(&s.ident.to_string()), hex(&format!("{}{}", static_head(&s), strip_ws(&crate::proj::ts(&s.ty)))), hex(&strip_ws(&crate::proj::ts(&s.expr))))),
                        Ok(s) => {
                            // attributes in front of the macro invocation: they belong to the static all the same
                            let mut s = s;
                            s.attrs = mac.attrs.iter().cloned().chain(s.attrs.into_iter()).collect();
                            items.push(format!("( lazy {} {} {} t )", hex(&s.ident.to_string()), hex(&format!("{}{}", static_head(&s), strip_ws(&crate::proj::ts(&s.ty)))), hex(&strip_ws(&crate::proj::ts(&s.expr)))))
                        }
                        Err(_) => items.push(format!("( other {} )", hex(&crate::proj::ts(mac)))),
                    }
                }
                other => items.push(format!("( other {} )", hex(&crate::proj::ts(other)))),
            }
        }
        mods.push((norm_mod(&m.ident.to_string()), format!("( {} {} {} )", hex(&m.ident.to_string()), sx_list(uses), sx_list(items))));
    }
    Ok(mods)
}

/// visibility and attributes (doc comments) of a static: part of what has to be the same under every configuration
fn static_head(s: &syn::ItemStatic) -> String {
    format!("{}{}|", strip_ws(&crate::proj::ts(&s.vis)), s.attrs.iter().map(|a| strip_ws(&crate::proj::ts(a))).collect::<String>())
}

pub fn gen_inputs(cfg: &RunCfg) -> Vec<Vec<M>> {
    let mut rng = Rng::new(cfg.seed ^ 0xC19);
    let n = cfg.budget(14, 120);
    let payloads = ["INTEGER", "BOOLEAN", "UTF8String", "NULL", "OCTET STRING", "INTEGER (0..7)", "SEQUENCE OF BOOLEAN"];
    let mut out = Vec::new();
    for set in 0..n {
        let n_mod = 1 + rng.below(3);
        let mut mods = Vec::new();
        for m in 0..n_mod {
            let n_assign = 3 + rng.below(10);
            let mut g = Gen { rng: &mut rng, info_objects: false };
            let mut md = g.module(&format!("Mod{set}x{m}"), &format!("{set}x{m}"), n_assign);
            // CHOICEs with repeated payload types
            for c in 0..1 + rng.below(3) {
                let n_alt = 1 + rng.below(6);
                let refs: Vec<String> = md.defs.iter().filter(|d| d.kind == Kind::Type && d.refs.is_empty() && d.shape != "Pin").map(|d| d.name.clone()).collect();
                let alts: Vec<String> = (0..n_alt)
                    .map(|a| {
                        let ty = if !refs.is_empty() && rng.chance(1, 2) { rng.pick(&refs).clone() } else { rng.pick(&payloads).to_string() };
                        format!("alt{a} {ty}")
                    })
                    .collect();
                let name = format!("ChoM{set}x{m}x{c}e");
                md.defs.push(D { text: format!("{name} ::= CHOICE {{ {} }}", alts.join(", ")), name, kind: Kind::Type, shape: "ChoM".into(), refs: vec![], fault: None });
            }
            // types whose members all have DEFAULTs (the generator writes `impl Default` for them)
            let name = format!("AllDef{set}x{m}e");
            md.defs.push(D { text: format!("{name} ::= {} {{ a INTEGER DEFAULT 5, b BOOLEAN DEFAULT TRUE, c UTF8String DEFAULT \"x\" }}", if m % 2 == 0 { "SEQUENCE" } else { "SET" }), name, kind: Kind::Type, shape: "AllDef".into(), refs: vec![], fault: None });
            // a CHOICE with recursive alternatives (boxed payloads), and CHOICE values whose payload is / is not
            // a constant expression (lazily initialised under every flavour)
            if rng.chance(1, 2) {
                let rc = format!("RecC{set}x{m}e");
                md.defs.push(D { text: format!("{rc} ::= CHOICE {{ and SEQUENCE OF {rc}, not {rc}, leaf INTEGER (0..7), other BOOLEAN }}"), name: rc, kind: Kind::Type, shape: "ChoM".into(), refs: vec![], fault: None });
                let key = format!("Key{set}x{m}e");
                md.defs.push(D { text: format!("{key} ::= CHOICE {{ by-name UTF8String, num INTEGER (0..7), big INTEGER, flag BOOLEAN }}"), name: key.clone(), kind: Kind::Type, shape: "ChoM".into(), refs: vec![], fault: None });
                // a defined type whose name begins like `Vec`, list values of it and of a built-in SEQUENCE OF, and values
                // with an ASN.1 comment in front (it becomes the doc comment of the static)
                let vecn = format!("Vector{set}x{m}e");
                md.defs.push(D { text: format!("{vecn} ::= SEQUENCE OF INTEGER"), name: vecn.clone(), kind: Kind::Type, shape: "Lof".into(), refs: vec![], fault: None });
                md.defs.push(D { text: format!("-- the origin\n-- of everything\norigin{set}x{m}e {vecn} ::= {{ 1, 2 }}"), name: format!("origin{set}x{m}e"), kind: Kind::Value, shape: "vLof".into(), refs: vec![vecn], fault: None });
                md.defs.push(D { text: format!("/* documented */\nbig{set}x{m}e INTEGER ::= 99999999999999999999"), name: format!("big{set}x{m}e"), kind: Kind::Value, shape: "vint".into(), refs: vec![], fault: None });
                md.defs.push(D { text: format!("-- a text\ntxt{set}x{m}e UTF8String ::= \"abc\""), name: format!("txt{set}x{m}e"), kind: Kind::Value, shape: "vstr".into(), refs: vec![], fault: None });
                for (vi, v) in ["by-name : \"hello\"", "num : 5", "big : 99999999999999999999", "flag : TRUE"].iter().enumerate() {
                    let vn = format!("kv{set}x{m}x{vi}e");
                    md.defs.push(D { text: format!("{vn} {key} ::= {v}"), name: vn, kind: Kind::Value, shape: "vCho".into(), refs: vec![key.clone()], fault: None });
                }
            }
            // module-qualified references to a type of the first module (alias, member, list element, CHOICE payload),
            // whether or not an IMPORTS clause names it: the path printed for them is no option's business
            if m > 0 {
                let target = format!("Mod{set}x0.AllDef{set}x0e");
                let qa = format!("QualA{set}x{m}e");
                md.defs.push(D { text: format!("{qa} ::= {target}"), name: qa, kind: Kind::Type, shape: "Qual".into(), refs: vec![], fault: None });
                let qs = format!("QualS{set}x{m}e");
                md.defs.push(D { text: format!("{qs} ::= SEQUENCE {{ one {target}, many SEQUENCE OF {target}, opt {target} OPTIONAL }}"), name: qs, kind: Kind::Type, shape: "Qual".into(), refs: vec![], fault: None });
                let qc = format!("QualC{set}x{m}e");
                md.defs.push(D { text: format!("{qc} ::= CHOICE {{ far {target}, near BOOLEAN }}"), name: qc, kind: Kind::Type, shape: "Qual".into(), refs: vec![], fault: None });
            }
            mods.push(md);
        }
        link_imports(&mut rng, &mut mods, 2, &format!("{set}"));
        out.push(mods);
    }
    out
}

pub fn run(cfg: &RunCfg) -> Report {
    let mut rep = Report::new(
        "C19",
        "generated module sets (types incl. CHOICEs whose alternatives repeat payload types 0..5 times, recursive CHOICEs, CHOICE values with constant and non-constant payloads, lazily initialised values, IMPORTS between modules) compiled under Config::default() and under all 2^4 boolean combinations x {no, one, several} custom imports x {default, extra derives, extra non-derive attributes, derives listed twice / oddly spaced, no derive line, empty} type annotations. Model tie: project(compile cfg x) = decorate cfg (project(compile default x)) item by item. Oracle (Lean, on the implementation's output): definitions identical to the default configuration's after erasing derives / user attributes / lazy flavour / From impls; required derives present and no derive twice; From impls exactly for payload types unique within their CHOICE and only with the option; import lists unchanged unless wildcard; builtin + custom use lines; lazy flavour follows no_std",
    );
    let inputs: Vec<Vec<M>> = if let Some(r) = &cfg.replay {
        let r = r.get("case").unwrap_or(r);
        crate::props::c11::set_from_json(&r["set"])
    } else {
        gen_inputs(cfg)
    };
    let opts: Vec<Opt> = if let Some(r) = &cfg.replay {
        let r = r.get("case").unwrap_or(r);
        vec![Opt::from_json(&r["config"])]
    } else {
        all_opts()
    };
    let mut reqs = Vec::new();
    let mut meta = Vec::new();
    for (ii, mods) in inputs.iter().enumerate() {
        let srcs: Vec<String> = mods.iter().map(|m| m.text()).collect();
        let base = compile_rasn(&srcs);
        let Outcome::Ok { generated: bgen, warnings: bwarn } = &base else {
            rep.count("default-config:not-ok(not judged)");
            continue;
        };
        let bmods = match project_modules(bgen) {
            Ok(m) => m,
            Err(e) => {
                rep.harness_errors.push(e);
                continue;
            }
        };
        rep.distinct.insert(format!("{}", bgen.len()));
        for (oi, o) in opts.iter().enumerate() {
            rep.evaluations += 1;
            let case = || json!({"set": crate::props::c11::set_to_json(&[mods.clone()]), "config": o.to_json()});
            match compile_rasn_cfg(&srcs, o.to_cfg()) {
                Outcome::Ok { generated, warnings } => {
                    if &warnings != bwarn {
                        rep.unsat("", false, json!({"why": format!("warnings differ from the default configuration's: {:?} vs {:?}", warnings.iter().take(2).collect::<Vec<_>>(), bwarn.iter().take(2).collect::<Vec<_>>()), "case": case()}));
                    }
                    match project_modules(&generated) {
                        Ok(cm) => {
                            if cm.len() != bmods.len() {
                                rep.unsat("", false, json!({"why": "number of modules differs from the default configuration's", "case": case()}));
                                continue;
                            }
                            for ((bn, bm), (cn, cmx)) in bmods.iter().zip(cm.iter()) {
                                if bn != cn {
                                    rep.unsat("", false, json!({"why": "module order differs from the default configuration's", "case": case()}));
                                    continue;
                                }
                                reqs.push(format!("c19 {} {} {}", o.sx(), bm, cmx));
                                meta.push((ii, oi, bn.clone()));
                            }
                        }
                        Err(e) => rep.unsat("", false, json!({"why": e, "case": case()})),
                    }
                }
                Outcome::Err(e) => rep.unsat("", false, json!({"why": format!("Err under this configuration only: {e}"), "case": case()})),
                Outcome::Panic(p) => rep.unsat("", false, json!({"why": format!("panic under this configuration only: {p}"), "case": case()})),
            }
        }
    }
    match run_driver(&reqs) {
        Ok(ans) => {
            for (k, a) in ans.iter().enumerate() {
                let (ii, oi, mn) = &meta[k];
                let o = &opts[*oi];
                rep.count(&format!("bools:{}{}{}{}", o.opaque as u8, o.wildcard as u8, o.from_impls as u8, o.no_std as u8));
                let case = || json!({"set": crate::props::c11::set_to_json(&[inputs[*ii].clone()]), "config": o.to_json()});
                let Some((model, spec)) = a.split_once('|') else {
                    rep.harness_errors.push(format!("driver answer `{a}`"));
                    continue;
                };
                if model != "ok" {
                    rep.disagree(json!({"difference": format!("module {mn}: {model}"), "case": case()}));
                }
                if spec != "ok" {
                    rep.unsat("", model == "ok", json!({"why": format!("module {mn}: {spec}"), "case": case()}));
                }
                if k % 997 == 0 {
                    rep.sample(json!({"module": mn, "config": o.to_json(), "answer": a}));
                }
            }
        }
        Err(e) => rep.harness_errors.push(e),
    }
    rep
}

//! C12: modules compile independently of their neighbours; IMPORTS become use lines.
use crate::modset::*;
use crate::pipe_obs::*;
use crate::props::c11::{set_from_json, set_to_json};
use crate::report::{Report, RunCfg};
use crate::util::*;
use serde_json::json;
use std::collections::{BTreeMap, BTreeSet};

pub fn gen_sets(cfg: &RunCfg) -> Vec<Vec<M>> {
    let mut rng = Rng::new(cfg.seed ^ 0xC12);
    let n = cfg.budget(80, 900);
    let mut sets = Vec::new();
    for set in 0..n {
        let n_mod = 2 + rng.below(4);
        let mut mods = Vec::new();
        for m in 0..n_mod {
            let n_assign = 2 + rng.below(if set % 3 == 0 { 4 } else { 14 });
            let mut g = Gen { rng: &mut rng, info_objects: set % 5 == 0 };
            // module names in an order unrelated to the index, so that "generated before" varies
            let mname = format!("{}Mod{set}x{m}", ["Zeta", "Alpha", "Mid", "Beta", "Omega"][(m * 7 + set) % 5]);
            let mut md = g.module(&mname, &format!("{set}x{m}"), n_assign);
            // differing defaults, all combinations over the set
            md.tagging = (m + set) % 4;
            md.ext = ((m + set / 4) % 2) == 0;
            // type names made of capitals, digits and hyphens only
            if rng.chance(1, 2) {
                let nm = ["T", "E16", "X-50", "IA"][rng.below(4)];
                let name = format!("{nm}{m}{}", rng.below(10));
                md.defs.push(D { text: format!("{name} ::= INTEGER (0..{})", 10 + m), name, kind: Kind::Type, shape: "Int".into(), refs: vec![], fault: None });
            }
            // witnesses of the defaults
            md.defs.push(D { name: format!("WitS{set}x{m}e"), kind: Kind::Type, shape: "WitS".into(), text: format!("WitS{set}x{m}e ::= SEQUENCE {{ a INTEGER, b BOOLEAN OPTIONAL }}"), refs: vec![], fault: None });
            md.defs.push(D { name: format!("WitC{set}x{m}e"), kind: Kind::Type, shape: "WitC".into(), text: format!("WitC{set}x{m}e ::= CHOICE {{ x [0] NULL, y [1] UTF8String }}"), refs: vec![], fault: None });
            mods.push(md);
        }
        // homonyms next door: a module that is neither imported nor referenced declares the enumeral / named numbers
        // a neighbour uses, in types that sort before the neighbour's own and whose names are suffixes / look-alikes of them
        if set % 2 == 0 {
            let (a, b) = (0usize, 1usize);
            mods[a].defs.push(D { text: "Top-Shade ::= ENUMERATED { light, dark }".into(), name: "Top-Shade".into(), kind: Kind::Type, shape: "Enu".into(), refs: vec![], fault: None });
            mods[a].defs.push(D { text: "favourite Top-Shade ::= light".into(), name: "favourite".into(), kind: Kind::Value, shape: "venu".into(), refs: vec!["Top-Shade".into()], fault: None });
            mods[a].defs.push(D { text: "Level ::= INTEGER { low(1), high(9) }".into(), name: "Level".into(), kind: Kind::Type, shape: "Int".into(), refs: vec![], fault: None });
            mods[a].defs.push(D { text: "Ranged ::= Level (low..high)".into(), name: "Ranged".into(), kind: Kind::Type, shape: "Int".into(), refs: vec!["Level".into()], fault: None });
            mods[a].defs.push(D { text: "Holder-Of-Levels ::= SEQUENCE { l Level (low..high), s Top-Shade DEFAULT light }".into(), name: "Holder-Of-Levels".into(), kind: Kind::Type, shape: "Seq".into(), refs: vec!["Level".into(), "Top-Shade".into()], fault: None });
            mods[b].defs.push(D { text: "Shade ::= ENUMERATED { heavy, light }".into(), name: "Shade".into(), kind: Kind::Type, shape: "Enu".into(), refs: vec![], fault: None });
            mods[b].defs.push(D { text: "Depth ::= INTEGER { low(10), high(90) }".into(), name: "Depth".into(), kind: Kind::Type, shape: "Int".into(), refs: vec![], fault: None });
            mods[b].defs.push(D { text: "A-Level ::= INTEGER { low(20), high(30) } (low..high)".into(), name: "A-Level".into(), kind: Kind::Type, shape: "Int".into(), refs: vec![], fault: None });
        }
        link_imports(&mut rng, &mut mods, 3, &format!("{set}"));
        // an imported value whose (not imported) type is named like the beginning of another imported symbol
        if n_mod >= 2 && rng.chance(1, 2) {
            let (pi, ui) = (0usize, 1usize);
            let (ty, long, val) = (format!("Spd{set}"), format!("Spd{set}Limit"), format!("vspd{set}e"));
            mods[pi].defs.push(D { text: format!("{ty} ::= INTEGER (0..255)"), name: ty.clone(), kind: Kind::Type, shape: "Int".into(), refs: vec![], fault: None });
            mods[pi].defs.push(D { text: format!("{long} ::= BOOLEAN"), name: long.clone(), kind: Kind::Type, shape: "Boo".into(), refs: vec![], fault: None });
            mods[pi].defs.push(D { text: format!("{val} {ty} ::= 5"), name: val.clone(), kind: Kind::Value, shape: "vInt".into(), refs: vec![ty], fault: None });
            let prov = mods[pi].name.clone();
            if let Some(clause) = mods[ui].imports.iter_mut().find(|(p, _)| p == &prov) {
                clause.1.push(long.clone());
                clause.1.push(val.clone());
            } else {
                mods[ui].imports.push((prov, vec![long.clone(), val.clone()]));
            }
            let un = format!("UseSpd{set}");
            mods[ui].defs.push(D { text: format!("{un} ::= SEQUENCE {{ f {long}, g INTEGER (0..{val}) }}"), name: un, kind: Kind::Type, shape: "UseC".into(), refs: vec![long, val], fault: None });
        }
        // module-qualified references
        for j in 0..n_mod {
            if rng.chance(1, 3) {
                let i = (j + 1 + rng.below(n_mod - 1)) % n_mod;
                let cands: Vec<String> = mods[i].defs.iter().filter(|d| d.kind == Kind::Type && d.refs.is_empty() && !d.no_output() && d.shape != "Pin").map(|d| d.name.clone()).collect();
                if let Some(t) = cands.first().cloned() {
                    if !mods[j].imports.iter().any(|(p, _)| p == &mods[i].name) {
                        let prov = mods[i].name.clone();
                        // with and without an IMPORTS clause for the symbol: a qualified reference needs none
                        if rng.chance(1, 2) {
                            mods[j].imports.push((prov.clone(), vec![t.clone()]));
                        }
                        // in every position a type reference can stand in
                        let forms = [
                            format!("SEQUENCE {{ q {prov}.{t} }}"),
                            format!("SEQUENCE OF {prov}.{t}"),
                            format!("SET OF {prov}.{t}"),
                            format!("CHOICE {{ q {prov}.{t}, d NULL }}"),
                            format!("{prov}.{t}"),
                            format!("SEQUENCE {{ q SEQUENCE OF {prov}.{t}, o {prov}.{t} OPTIONAL }}"),
                            format!("SET {{ q [0] {prov}.{t}, o [1] SET OF {prov}.{t} }}"),
                        ];
                        for (fi, form) in forms.iter().enumerate() {
                            if fi == 0 || rng.chance(1, 2) {
                                let name = format!("UseQ{set}x{j}f{fi}e");
                                mods[j].defs.push(D { text: format!("{name} ::= {form}"), name, kind: Kind::Type, shape: "UseQ".into(), refs: vec![t.clone()], fault: None });
                            }
                        }
                        // a qualified value in the constraint of an INTEGER that has a named number of the same name
                        // (and of another name, as the control): the qualified one is the provider's
                        {
                            let (cv, lim) = (format!("ceiling{set}x{j}e"), 100 + set as i64);
                            mods[i].defs.push(D { text: format!("{cv} INTEGER ::= {lim}"), name: cv.clone(), kind: Kind::Value, shape: "vint".into(), refs: vec![], fault: None });
                            let name = format!("UseQv{set}x{j}ae");
                            mods[j].defs.push(D { text: format!("{name} ::= INTEGER {{ {cv}(5), low(1) }} (0 .. {prov}.{cv})"), name, kind: Kind::Type, shape: "UseQv".into(), refs: vec![cv.clone(), lim.to_string()], fault: None });
                            let name = format!("UseQv{set}x{j}be");
                            mods[j].defs.push(D { text: format!("{name} ::= INTEGER {{ top(5), low(1) }} (low .. {prov}.{cv})"), name, kind: Kind::Type, shape: "UseQv".into(), refs: vec![cv.clone(), lim.to_string()], fault: None });
                            let name = format!("UseQv{set}x{j}ce");
                            mods[j].defs.push(D { text: format!("{name} ::= SEQUENCE {{ c INTEGER {{ {cv}(5) }} (0 .. {prov}.{cv}) }}"), name, kind: Kind::Type, shape: "UseQv".into(), refs: vec![cv, lim.to_string()], fault: None });
                        }
                        // a cycle across the two modules, by qualified references on both sides (one side gets boxed)
                        if rng.chance(1, 2) {
                            let here = mods[j].name.clone();
                            let (cyc, link) = (format!("UseQ{set}x{j}cyc"), format!("UseQ{set}x{j}lnk"));
                            mods[j].defs.push(D { text: format!("{cyc} ::= SEQUENCE {{ next [0] {prov}.{link} OPTIONAL, v [1] INTEGER }}"), name: cyc.clone(), kind: Kind::Type, shape: "UseQ".into(), refs: vec![link.clone()], fault: None });
                            mods[i].defs.push(D { text: format!("{link} ::= SEQUENCE {{ back [0] {here}.{cyc} OPTIONAL }}"), name: link, kind: Kind::Type, shape: "UseQ".into(), refs: vec![cyc], fault: None });
                        }
                    }
                }
            }
        }
        sets.push(mods);
    }
    sets
}

/// modules `root` needs: itself plus, transitively, the modules it imports from
fn closure(mods: &[M], root: usize) -> BTreeSet<usize> {
    let mut set = BTreeSet::new();
    let mut todo = vec![root];
    while let Some(i) = todo.pop() {
        if set.insert(i) {
            for (p, _) in &mods[i].imports {
                if let Some(k) = mods.iter().position(|m| &m.name == p) {
                    todo.push(k);
                }
            }
            // providers of module-qualified references (no IMPORTS clause needed for those)
            for d in mods[i].defs.iter().filter(|d| d.shape == "UseQ" || d.shape == "UseQv") {
                if let Some(k) = mods.iter().position(|m| d.text.contains(&format!(" {}.{}", m.name, d.refs[0]))) {
                    todo.push(k);
                }
            }
        }
    }
    set
}

fn block<'a>(obs: &'a Obs, m: &M) -> Option<&'a Vec<(String, String)>> {
    let mn = norm_mod(&m.name);
    obs.mods.iter().find(|(n, _)| n == &mn).map(|(_, i)| i)
}

/// expected `use super::…` lines of module j: provider (normalised) → set of Rust names
fn expected_uses(mods: &[M], j: usize) -> BTreeMap<String, BTreeSet<String>> {
    let m = &mods[j];
    let mut out: BTreeMap<String, BTreeSet<String>> = BTreeMap::new();
    let find = |name: &str| -> Option<(usize, &D)> { mods.iter().enumerate().find_map(|(i, mm)| mm.defs.iter().find(|d| d.name == name).map(|d| (i, d))) };
    let imported: BTreeSet<&String> = m.imports.iter().flat_map(|(_, s)| s.iter()).collect();
    for (p, syms) in &m.imports {
        let e = out.entry(norm_mod(p)).or_default();
        for s in syms {
            // the exact mangling is C16's business: compare with `-` / `_` removed
            // the exact mangling is judged below against the items that exist: here letters only
            e.insert(s.replace('-', "").to_lowercase());
        }
        // a symbol spelled in capitals and hyphens only is taken for an information object class (which has no item
        // of its own in the bindings): the whole clause is then imported as `*` (Gen/Imports.classLike; the same
        // module, nothing leaks) — by design, not judged
        if syms.iter().any(|s| s.chars().all(|c| c.is_uppercase() || c == '-')) {
            e.clear();
            e.insert("*".into());
        }
    }
    // types associated with imported values (validator/mod.rs fill_in_associated_type_imports)
    for (_, syms) in &m.imports {
        for s in syms {
            if s.starts_with(|c: char| c.is_lowercase()) {
                if let Some((_, d)) = find(s) {
                    // a value governed by a selection type is of the selected alternative's (built-in) type
                    if d.shape == "vSel" {
                        continue;
                    }
                    if let Some(t) = d.refs.first() {
                        if let Some((q, td)) = find(t) {
                            if q != j && td.kind == Kind::Type && !imported.contains(t) {
                                let e = out.entry(norm_mod(&mods[q].name)).or_default();
                                if !e.contains("*") {
                                    e.insert(t.replace('-', "").to_lowercase());
                                }
                            }
                        }
                    }
                }
            }
        }
    }
    out
}

fn observed_uses(items: &[(String, String)]) -> BTreeMap<String, BTreeSet<String>> {
    let mut out: BTreeMap<String, BTreeSet<String>> = BTreeMap::new();
    for (id, text) in items {
        if id != "use" {
            continue;
        }
        // `use super :: m :: { A , B } ;`
        let t: String = text.chars().filter(|c| !c.is_whitespace()).collect();
        if let Some(rest) = t.strip_prefix("usesuper::") {
            let rest = rest.trim_end_matches(';');
            if let Some((m, syms)) = rest.split_once("::") {
                let e = out.entry(norm_mod(m)).or_default();
                for s in syms.trim_start_matches('{').trim_end_matches('}').split(',') {
                    if !s.is_empty() {
                        e.insert(if s == "*" { s.to_string() } else { s.replace('_', "").to_lowercase() });
                    }
                }
            }
        }
    }
    out
}

pub fn run(cfg: &RunCfg) -> Report {
    let mut rep = Report::new(
        "C12",
        "sets of 2..5 generated modules whose tagging default (none / EXPLICIT / IMPLICIT / AUTOMATIC) and EXTENSIBILITY IMPLIED differ in every combination, with a random (possibly cyclic) import graph: imported types used as components / list elements, imported values in constraints and DEFAULTs, values whose governing type is not imported, module-qualified references (with and without an IMPORTS clause; as component, list element, CHOICE alternative, alias, nested list element), type names made of capitals, digits and hyphens. Each module's `pub mod` block from the full compilation is compared with the block from compiling only the module and the transitive closure of its providers, and from random sub-sets / orders containing that closure. Oracle: blocks identical; witness SEQUENCE / CHOICE in each module carry exactly their own module's defaults; the use lines name exactly the imported symbols (plus the governing types of imported values) of the sibling module. Model tie: backend state per emitted definition equals the skeleton's",
    );
    let sets: Vec<Vec<M>> = if let Some(r) = &cfg.replay {
        let r = r.get("case").unwrap_or(r);
        set_from_json(&r["set"])
    } else {
        let mut v: Vec<Vec<M>> = load_corpus("C12").iter().flat_map(|c| set_from_json(&c["set"])).collect();
        v.extend(gen_sets(cfg));
        v
    };
    let mut rng = Rng::new(cfg.seed ^ 0x5B12);
    let mut reqs = Vec::new();
    let mut tie = Vec::new();
    // second tie: the use lines as the Lean model of generate_module's import closure renders them
    let mut use_reqs: Vec<String> = Vec::new();
    let mut use_meta: Vec<(usize, usize, Vec<String>)> = Vec::new();
    for (si, mods) in sets.iter().enumerate() {
        rep.evaluations += 1;
        let case = || json!({"set": set_to_json(&[mods.clone()])});
        rep.count(&format!("modules:{}", mods.len()));
        rep.count(&format!("import-clauses:{}", mods.iter().map(|m| m.imports.len()).sum::<usize>().min(6)));
        let distinct_defaults: BTreeSet<(usize, bool)> = mods.iter().map(|m| (m.tagging, m.ext)).collect();
        rep.count(&format!("distinct-defaults:{}", distinct_defaults.len()));
        rep.distinct.insert(format!("{:?}", mods.iter().map(|m| (m.tagging, m.ext, m.imports.len(), m.defs.len())).collect::<Vec<_>>()));
        let names: Vec<&String> = mods.iter().flat_map(|m| m.defs.iter().map(|d| &d.name)).collect();
        let collision = names.iter().collect::<BTreeSet<_>>().len() != names.len();
        let full = observe(&render(&[mods.clone()]));
        if !matches!(full.outcome, Outcome::Ok { .. }) || full.parse_error.is_some() {
            rep.count("full:not-ok(not judged)");
            if let Outcome::Panic(p) = &full.outcome {
                rep.harness_errors.push(format!("set {si}: panic {p}"));
            }
            continue;
        }
        // model tie: state per emitted definition
        let srcs = vec![mods.clone()];
        let flat = flatten(&srcs);
        let cls = classify(&flat, &full.warnings);
        reqs.push(pipe_request(&flat, &cls));
        tie.push((si, full.mods.clone()));
        for (j, m) in mods.iter().enumerate() {
            let Some(fb) = block(&full, m) else {
                rep.count("module-without-block");
                continue;
            };
            // (a) defaults do not leak: witnesses
            for (id, text) in fb {
                let squeezed: String = text.chars().filter(|c| !c.is_whitespace()).collect();
                if id == &format!("WitS{}", &m.defs.iter().find(|d| d.shape == "WitS").map(|d| d.name[4..].to_string()).unwrap_or_default()) {
                    let auto = squeezed.contains("automatic_tags");
                    let ext = squeezed.contains("#[non_exhaustive]");
                    rep.count("witness:sequence");
                    if auto != (m.tagging == 3) || ext != m.ext {
                        rep.unsat("", false, json!({"why": format!("module {} ({}{}): witness SEQUENCE has automatic_tags={auto}, non_exhaustive={ext}", m.name, TAGGING[m.tagging], if m.ext { ", EXTENSIBILITY IMPLIED" } else { "" }), "case": case()}));
                    }
                }
                if id == &format!("WitC{}", &m.defs.iter().find(|d| d.shape == "WitC").map(|d| d.name[4..].to_string()).unwrap_or_default()) {
                    let explicit = squeezed.contains("tag(explicit(");
                    let ext = squeezed.contains("#[non_exhaustive]");
                    rep.count("witness:choice");
                    if explicit != (m.tagging == 1) || ext != m.ext {
                        rep.unsat("", false, json!({"why": format!("module {} ({}{}): witness CHOICE has explicit tags={explicit}, non_exhaustive={ext}", m.name, TAGGING[m.tagging], if m.ext { ", EXTENSIBILITY IMPLIED" } else { "" }), "case": case()}));
                    }
                }
            }
            // (b) use lines
            let exp = expected_uses(mods, j);
            let seen = observed_uses(fb);
            // model tie on the clauses as written (the linker may append governing types of imported values
            // to a clause: the model line must then be a prefix of the observed one)
            let lines: Vec<String> = fb.iter().filter(|(id, t)| id == "use" && t.replace(' ', "").starts_with("usesuper::")).map(|(_, t)| t.split_whitespace().collect::<String>()).collect();
            use_reqs.push(format!("c12use f {}", sx_list(m.imports.iter().map(|(p, syms)| format!("( {} {} )", hex(p), sx_list(syms.iter().map(|x| hex(x))))))));
            use_meta.push((si, j, lines));
            rep.count(if exp.is_empty() { "uses:none" } else { "uses:some" });
            if exp != seen {
                rep.unsat("", false, json!({"why": format!("module {}: IMPORTS {:?} should give use lines {:?}, generated {:?}", m.name, m.imports, exp, seen), "case": case()}));
            }
            // every symbol of a use line is the identifier of an item the named module really has
            for (id, text) in fb.iter().filter(|(id, _)| id == "use") {
                let _ = id;
                let t: String = text.chars().filter(|c| !c.is_whitespace()).collect();
                let Some(rest) = t.strip_prefix("usesuper::") else { continue };
                let Some((pm, syms)) = rest.trim_end_matches(';').split_once("::") else { continue };
                let Some((_, pitems)) = full.mods.iter().find(|(n, _)| n == &norm_mod(pm)) else { continue };
                for sym in syms.trim_start_matches('{').trim_end_matches('}').split(',').filter(|x| !x.is_empty() && *x != "*") {
                    rep.count("use-symbol");
                    // (a definition that was not generated — with its warning — leaves a dangling name: not judged here)
                    let norm = |x: &str| x.replace('_', "").to_lowercase();
                    let near: Vec<&String> = pitems.iter().map(|(pid, _)| pid).filter(|pid| norm(pid) == norm(sym)).collect();
                    if !near.is_empty() && !near.iter().any(|pid| pid.as_str() == sym) {
                        rep.unsat("", false, json!({"why": format!("module {}: `use super::{pm}::{{..}}` names `{sym}`, but the item of module {pm} is spelled {:?}", m.name, near), "case": case()}));
                    }
                }
            }
            // module-qualified references
            for d in m.defs.iter().filter(|d| d.shape == "UseQ") {
                if let Some((_, text)) = fb.iter().find(|(id, _)| id == &d.rust_name()) {
                    let squeezed: String = text.chars().filter(|c| !c.is_whitespace()).collect();
                    let prov = mods.iter().find(|pm| d.text.contains(&format!(" {}.{}", pm.name, d.refs[0]))).map(|pm| norm_mod(&pm.name)).unwrap_or_default();
                    let imported = m.imports.iter().any(|(p, s)| norm_mod(p) == prov && s.contains(&d.refs[0]));
                    // every mention of the referenced type inside the item: qualified with the provider's module
                    // (a bare name is the same thing only if the module has a use line for it)
                    let tname = D { name: d.refs[0].clone(), kind: Kind::Type, shape: "Int".into(), text: String::new(), refs: vec![], fault: None }.rust_name();
                    let body = squeezed.split("implUseQ").next().unwrap_or(&squeezed).to_string();
                    let mut mentions = 0;
                    let mut bad = 0;
                    let bytes: Vec<char> = body.chars().collect();
                    let pat: Vec<char> = tname.chars().collect();
                    let mut at = 0;
                    while at + pat.len() <= bytes.len() {
                        if bytes[at..at + pat.len()] == pat[..]
                            && !(at > 0 && (bytes[at - 1].is_alphanumeric() || bytes[at - 1] == '_'))
                            && !(at + pat.len() < bytes.len() && (bytes[at + pat.len()].is_alphanumeric() || bytes[at + pat.len()] == '_'))
                        {
                            mentions += 1;
                            let before: String = bytes[..at].iter().collect();
                            let qualified = before.ends_with("::") && {
                                let path = before.trim_end_matches("::");
                                let seg: String = path.chars().rev().take_while(|c| c.is_alphanumeric() || *c == '_').collect::<String>().chars().rev().collect();
                                norm_mod(&seg) == prov && path.trim_end_matches(seg.as_str()).ends_with("super::")
                            };
                            if !(qualified || imported) {
                                bad += 1;
                            }
                            at += pat.len();
                        } else {
                            at += 1;
                        }
                    }
                    let ok = Some(mentions > 0 && bad == 0);
                    rep.count("qualified-reference");
                    if ok != Some(true) {
                        rep.unsat("", false, json!({"why": format!("module {}: `{}` should refer to super::<{}>::{}: {}", m.name, d.text, prov, d.refs[0], text), "case": case()}));
                    }
                }
            }
            for d in m.defs.iter().filter(|d| d.shape == "UseQv") {
                if let Some((_, text)) = fb.iter().find(|(id, _)| id == &d.rust_name()) {
                    let squeezed: String = text.chars().filter(|c| !c.is_whitespace()).collect();
                    rep.count("qualified-value-in-constraint");
                    if !squeezed.contains(&format!("..={}\"", d.refs[1])) {
                        rep.unsat("", false, json!({"why": format!("module {}: `{}` — the upper bound should be the value {} of the named module: {}", m.name, d.text, d.refs[1], text), "case": case()}));
                    }
                }
            }
            // (c) stand-alone and sub-set compilations
            let cl = closure(mods, j);
            let mut subsets: Vec<(String, Vec<usize>)> = vec![("only the module and the modules it imports from".into(), cl.iter().cloned().collect())];
            for _ in 0..2 {
                let mut s: Vec<usize> = cl.iter().cloned().collect();
                for k in 0..mods.len() {
                    if !cl.contains(&k) && rng.chance(1, 2) {
                        s.push(k);
                    }
                }
                for i in (1..s.len()).rev() {
                    s.swap(i, rng.below(i + 1));
                }
                subsets.push(("a sub-set in another order".into(), s));
            }
            if cl.len() == mods.len() {
                rep.count("closure:is-everything");
            }
            for (label, s) in subsets {
                if s.len() == mods.len() && label.starts_with("only") {
                    continue;
                }
                rep.evaluations += 1;
                let sub: Vec<M> = s.iter().map(|k| mods[*k].clone()).collect();
                // each module its own source, in this order
                let o = observe(&sub.iter().map(|m| m.text()).collect::<Vec<_>>());
                rep.count("sub-compilation");
                match (&o.outcome, block(&o, m)) {
                    (Outcome::Ok { .. }, Some(sb)) => {
                        if sb != fb {
                            let k = sb.iter().zip(fb.iter()).take_while(|(a, b)| a == b).count();
                            let why = format!("module {}: block differs between the full compilation and {label} {:?}: item {} `{}` vs `{}`", m.name, s.iter().map(|k| mods[*k].name.clone()).collect::<Vec<_>>(), k,
                                fb.get(k).map(|x| x.1.chars().take(300).collect::<String>()).unwrap_or_default(), sb.get(k).map(|x| x.1.chars().take(300).collect::<String>()).unwrap_or_default());
                            if collision {
                                rep.unsat("C12_bare_name_collision", true, json!({"why": why, "case": case()}));
                            } else {
                                rep.unsat("", false, json!({"why": why, "case": case()}));
                            }
                        }
                    }
                    (Outcome::Ok { .. }, None) => rep.unsat(if collision { "C12_bare_name_collision" } else { "" }, collision, json!({"why": format!("module {}: no block when compiled with {label}", m.name), "case": case()})),
                    (Outcome::Err(e), _) => rep.unsat("", false, json!({"why": format!("module {}: {label} {:?} fails although the full set compiles: {e}", m.name, s), "case": case()})),
                    (Outcome::Panic(p), _) => rep.unsat("", false, json!({"why": format!("module {}: {label} panics: {p}", m.name), "case": case()})),
                }
            }
        }
    }
    match run_driver(&use_reqs) {
        Ok(ans) => {
            for (a, (si, j, lines)) in ans.iter().zip(use_meta.iter()) {
                let m = &sets[*si][*j];
                let model: Vec<(String, Vec<String>)> = if a == "-" { vec![] } else {
                    a.split(';').map(|l| { let (md, syms) = l.split_once(':').unwrap_or((l, "")); (md.to_string(), syms.split(',').filter(|x| !x.is_empty()).map(String::from).collect()) }).collect()
                };
                // observed: `usesuper::m::{A,B};`
                let observed: Vec<(String, Vec<String>)> = lines.iter().filter_map(|l| {
                    let rest = l.strip_prefix("usesuper::")?.trim_end_matches(';');
                    let (md, syms) = rest.split_once("::")?;
                    Some((md.to_string(), syms.trim_start_matches('{').trim_end_matches('}').split(',').filter(|x| !x.is_empty()).map(String::from).collect()))
                }).collect();
                let ok = model.len() <= observed.len() && model.iter().zip(observed.iter()).all(|((mm, ms), (om, os))| mm == om && (ms == &vec!["*".to_string()] && os == &vec!["*".to_string()] || os.len() >= ms.len() && &os[..ms.len()] == ms.as_slice()));
                rep.count("use-lines:model-compared");
                if !ok {
                    rep.disagree(json!({"difference": format!("module {}: the import model renders {:?}, generated {:?}", m.name, model, observed), "case": {"set": set_to_json(&[sets[*si].clone()])}}));
                }
            }
        }
        Err(e) => rep.harness_errors.push(e),
    }
    match run_driver(&reqs) {
        Ok(ans) => {
            for (q, a) in ans.iter().enumerate() {
                let (si, obs_mods) = &tie[q];
                let mods = &sets[*si];
                let srcs = vec![mods.clone()];
                let flat = flatten(&srcs);
                match parse_events(a) {
                    Ok(ev) => {
                        for (mn, rust, state) in predicted_emitted(&ev, &flat) {
                            let Some((_, d)) = flat.iter().find(|(m, d)| norm_mod(&m.name) == mn && d.rust_name() == rust) else { continue };
                            if d.shape != "WitS" {
                                continue;
                            }
                            let Some(text) = obs_mods.iter().find(|(n, _)| n == &mn).and_then(|(_, i)| i.iter().find(|(id, _)| id == &rust)).map(|x| &x.1) else { continue };
                            let squeezed: String = text.chars().filter(|c| !c.is_whitespace()).collect();
                            let (tag, ext) = state.split_once('/').unwrap_or(("", ""));
                            let model_auto = tag == "3";
                            let model_ext = ext == "t";
                            if squeezed.contains("automatic_tags") != model_auto || squeezed.contains("#[non_exhaustive]") != model_ext {
                                rep.disagree(json!({"difference": format!("module {mn}: model generates `{rust}` under state {state}; implementation: {text}"), "case": {"set": set_to_json(&[mods.clone()])}}));
                            }
                        }
                    }
                    Err(e) => rep.harness_errors.push(e),
                }
            }
        }
        Err(e) => rep.harness_errors.push(e),
    }
    rep
}

//! C13: whitespace, line endings and comments between tokens do not matter.
use crate::asn_text::*;
use crate::modset::*;
use crate::report::{Report, RunCfg};
use crate::util::*;
use serde_json::{json, Value};

/// what can stand between two tokens
pub const GAPS: [&str; 16] = [
    " ",
    "\t",
    "\n",
    "\r\n",
    "  \n\t \r\n ",
    "", // only where the tokens stay separable
    " -- to end of line\n",
    "--glued to both neighbours\n",
    " -- inline -- ",
    "--inline, glued--",
    " /* block */ ",
    "/*glued*/",
    " /* a /* nested /* twice */ */ b */ ",
    " -- \"quoted\" { END } 'x'H ::= [[ ü ∑ 語 --\n",
    "/* BEGIN \"open { ( [ ' ü 語 \n -- not a line comment here \n */",
    "\n-- one\n-- two --\n/* three */\n",
];

fn gap_kind(g: usize) -> &'static str {
    match g {
        0..=4 => "whitespace",
        5 => "none",
        6 | 7 | 13 => "line-comment-eol",
        8 | 9 => "line-comment-inline",
        10 | 11 | 14 => "block-comment",
        12 => "block-comment-nested",
        _ => "mixture",
    }
}

/// tokens t1 t2 stay the same two tokens when written with `gap` between them
fn separable(t1: &str, gap: &str, t2: &str) -> bool {
    let joined = format!("{t1}{gap}{t2}");
    let toks = tokenize(&joined);
    toks.len() == 2 && &joined[toks[0].start..toks[0].end] == t1 && &joined[toks[1].start..toks[1].end] == t2
}

/// rewrite `text` replacing the gap after token `b` (or before the first token when b = usize::MAX) by `gap`
fn relayout(text: &str, toks: &[Tok], edits: &[(usize, usize)]) -> Option<String> {
    // edits: (boundary index i = gap between toks[i] and toks[i+1], gap index)
    let mut out = String::new();
    let mut pos = 0;
    for (i, t) in toks.iter().enumerate() {
        // gap before token i
        let gap_before = &text[pos..t.start];
        let edit = if i > 0 { edits.iter().find(|(b, _)| *b == i - 1) } else { None };
        match edit {
            Some((_, g)) => {
                let t1 = &text[toks[i - 1].start..toks[i - 1].end];
                let t2 = &text[t.start..t.end];
                if !separable(t1, GAPS[*g], t2) {
                    return None;
                }
                out.push_str(GAPS[*g]);
            }
            None => out.push_str(gap_before),
        }
        out.push_str(&text[t.start..t.end]);
        pos = t.end;
    }
    out.push_str(&text[pos..]);
    Some(out)
}

/// bindings with `#[doc = ".."]` attributes removed, token-normalised
pub fn strip_docs(generated: &str) -> String {
    let mut out = String::with_capacity(generated.len());
    let b: Vec<char> = generated.chars().collect();
    let pat: Vec<char> = "# [doc = \"".chars().collect();
    let mut i = 0;
    while i < b.len() {
        if b[i..].starts_with(&pat) {
            let mut j = i + pat.len();
            while j < b.len() {
                if b[j] == '\\' {
                    j += 2;
                    continue;
                }
                if b[j] == '"' {
                    break;
                }
                j += 1;
            }
            // closing `"]`
            j += 1;
            while j < b.len() && b[j] != ']' {
                j += 1;
            }
            i = j + 1;
            continue;
        }
        out.push(b[i]);
        i += 1;
    }
    out.split_whitespace().collect::<Vec<_>>().join(" ")
}

fn canon(o: &Outcome, ts: bool) -> String {
    match o {
        Outcome::Ok { generated, .. } => {
            if ts {
                // TypeScript: comments are `//` lines
                // comments of the source surface as `//` comments (leading, and trailing on enum members)
                generated
                    .lines()
                    .map(|l| {
                        // cut at `//` outside string literals
                        let mut in_str = false;
                        let cs: Vec<char> = l.chars().collect();
                        let mut cut = cs.len();
                        let mut i = 0;
                        while i < cs.len() {
                            match cs[i] {
                                '\\' if in_str => i += 1,
                                '"' => in_str = !in_str,
                                '/' if !in_str && cs.get(i + 1) == Some(&'/') => {
                                    cut = i;
                                    break;
                                }
                                _ => {}
                            }
                            i += 1;
                        }
                        cs[..cut].iter().collect::<String>()
                    })
                    .flat_map(|l| l.split_whitespace().map(String::from).collect::<Vec<_>>())
                    .collect::<Vec<_>>()
                    .join(" ")
            } else {
                format!("Ok {}", strip_docs(generated))
            }
        }
        Outcome::Err(_) => "Err".into(),
        Outcome::Panic(p) => format!("panic {p}"),
    }
}

struct Input {
    label: String,
    text: String,
}

fn inputs(cfg: &RunCfg) -> Vec<Input> {
    let mut rng = Rng::new(cfg.seed ^ 0xC13);
    let mut out = Vec::new();
    // small, exhaustively re-laid-out inputs: every notation of the pool once
    out.push(Input {
        label: "header-forms".into(),
        text: "Hdr-Mod { iso(1) 2 } DEFINITIONS AUTOMATIC TAGS EXTENSIBILITY IMPLIED ::= BEGIN\nEXPORTS ALL;\nIMPORTS T1, val1 FROM Other-Mod { 1 2 3 } U2 FROM Third-Mod;\nA ::= INTEGER\nEND\nOther-Mod { 1 2 3 } DEFINITIONS EXPLICIT TAGS ::= BEGIN\nT1 ::= BOOLEAN\nval1 INTEGER ::= 4\nEND\nThird-Mod DEFINITIONS IMPLICIT TAGS ::= BEGIN\nU2 ::= NULL\nEND\n".into(),
    });
    // IMPORTS: every pairing of {module reference with / without object identifier} with {next group starts with a
    // type / a value reference}, groups of one and of several symbols
    out.push(Input {
        label: "imports-forms".into(),
        text: "Imp-Mod DEFINITIONS AUTOMATIC TAGS ::= BEGIN\nIMPORTS T1 FROM B-Mod limit, U2 FROM C-Mod v3, W4 FROM D-Mod { 1 2 4 } x5 FROM E-Mod Y6 FROM F-Mod { 1 2 6 } Z7, z8 FROM G-Mod;\nV ::= SEQUENCE { t T1, u U2, w W4, y Y6, z Z7, n INTEGER (0..limit), m INTEGER (v3..x5), k INTEGER (z8) }\nEND\nB-Mod DEFINITIONS ::= BEGIN\nT1 ::= INTEGER\nEND\nC-Mod DEFINITIONS ::= BEGIN\nU2 ::= BOOLEAN\nlimit INTEGER ::= 5\nEND\nD-Mod { 1 2 4 } DEFINITIONS ::= BEGIN\nW4 ::= NULL\nv3 INTEGER ::= 3\nEND\nE-Mod DEFINITIONS ::= BEGIN\nx5 INTEGER ::= 9\nEND\nF-Mod { 1 2 6 } DEFINITIONS ::= BEGIN\nY6 ::= OCTET STRING\nEND\nG-Mod DEFINITIONS ::= BEGIN\nZ7 ::= BOOLEAN\nz8 INTEGER ::= 8\nEND\n".into(),
    });
    for (k, chunk) in ASSIGNMENTS.chunks(3).enumerate() {
        let picks: Vec<usize> = (0..chunk.len()).map(|i| k * 3 + i).collect();
        out.push(Input { label: format!("pool-{k}"), text: build_module(&format!("Pool{k}"), &picks, 100 + k, false, false).text });
    }
    out.push(Input {
        label: "constraints-and-values".into(),
        text: "Cv-Mod DEFINITIONS ::= BEGIN\nA ::= INTEGER (0..10 | 20..30, ...)\nB ::= OCTET STRING (SIZE (1..4))\nC ::= IA5String (FROM (\"a\"..\"z\")) (SIZE (2))\nD ::= SEQUENCE { a [0] EXPLICIT A DEFAULT 5, b SET OF B, c BIT STRING { x(0), y(1) } OPTIONAL, ..., [[ 2: d NULL ]] }\nE ::= CHOICE { p [APPLICATION 1] IMPLICIT A, q OBJECT IDENTIFIER }\nv1 D ::= { a 3, b { 'AB'H } }\nv2 E ::= p : 7\nv3 OBJECT IDENTIFIER ::= { iso standard 8571 }\nv4 BIT STRING ::= '0101'B\nF ::= ENUMERATED { one(1), two, ..., three }\nG ::= A (ALL EXCEPT 5)\nH ::= IA5String (FROM (\"a\"..\"f\", ...))\nI ::= INTEGER (0..10, ..., 20..30)\nJ ::= INTEGER (4, ..., 6 | 8)\nK ::= UTF8String (SIZE (1..4, ..., 8)) (FROM (\"x\" | \"y\", ...))\nEND\n".into(),
    });
    // extension markers with additions behind them, in every constructed type (the comma behind the marker is a boundary too)
    out.push(Input {
        label: "extensible-forms".into(),
        text: "Ext-Mod DEFINITIONS AUTOMATIC TAGS ::= BEGIN\nA ::= CHOICE { a INTEGER, b BOOLEAN, ..., c NULL, d UTF8String }\nB ::= CHOICE { a INTEGER, ..., [[ c NULL, d UTF8String ]], e BOOLEAN }\nC ::= SEQUENCE { a INTEGER, ..., b BOOLEAN, [[ 2: c NULL ]], d UTF8String OPTIONAL }\nD ::= SET { a INTEGER, ..., b BOOLEAN }\nE ::= ENUMERATED { x, y, ..., z, w(9) }\nF ::= CHOICE { a INTEGER, ... }\nG ::= SEQUENCE { ..., a INTEGER }\none INTEGER ::= 1\nva A ::= a : one\nvb A ::= b : TRUE\nEND\n".into(),
    });
    out.push(Input {
        label: "classes-and-parameters".into(),
        text: "Cp-Mod DEFINITIONS AUTOMATIC TAGS ::= BEGIN\nMY-CLASS ::= CLASS { &id INTEGER UNIQUE, &Type OPTIONAL } WITH SYNTAX { [TYPE &Type] ID &id }\nobj MY-CLASS ::= { TYPE BOOLEAN ID 1 }\nMySet MY-CLASS ::= { obj | { ID 2 }, ... }\nPar { T, INTEGER : n } ::= SEQUENCE { x T, y INTEGER (0..n) }\nInst ::= Par { BOOLEAN, 7 }\nUse ::= SEQUENCE { id MY-CLASS.&id ({MySet}), val MY-CLASS.&Type ({MySet}{@id}) }\nEND\n".into(),
    });
    out.push(Input {
        label: "raw-text-sections".into(),
        text: "Raw-Mod DEFINITIONS AUTOMATIC TAGS ::= BEGIN\nOther ::= BOOLEAN\nT ::= OCTET STRING (CONSTRAINED BY { Other })\nU ::= SEQUENCE { f INTEGER }\nENCODING-CONTROL XER\n    [NAME AS CAPITALIZED] U.f\nEND\n".into(),
    });
    // generated module sets
    for k in 0..cfg.budget(6, 60) {
        let n_assign = 3 + rng.below(12);
        let mut g = Gen { rng: &mut rng, info_objects: true };
        let m = g.module(&format!("Gen{k}"), &format!("{k}x0"), n_assign);
        out.push(Input { label: format!("generated-{k}"), text: m.text() });
    }
    // real-world modules that compile
    let dir = std::path::Path::new("/repo/rasn-compiler-tests/tests/modules");
    let mut files: Vec<std::path::PathBuf> = std::fs::read_dir(dir).map(|d| d.filter_map(|e| e.ok().map(|e| e.path())).collect()).unwrap_or_default();
    files.sort();
    let want = cfg.budget(12, 150);
    let mut tried = 0;
    let mut got = 0;
    while got < want && tried < files.len() && !files.is_empty() {
        let f = &files[rng.below(files.len())];
        tried += 1;
        if let Ok(t) = std::fs::read_to_string(f) {
            if t.len() < 40_000 && matches!(compile_rasn(&[t.clone()]), Outcome::Ok { .. }) {
                out.push(Input { label: format!("real-world:{}", f.file_name().unwrap().to_string_lossy()), text: t });
                got += 1;
            }
        }
    }
    out
}

pub fn run(cfg: &RunCfg) -> Report {
    let mut rep = Report::new(
        "C13",
        "every token boundary (X.680 §12 tokeniser in the harness) of small hand-listed modules covering every header form, the assignment pool, constraints, values, classes, parameterization — exhaustively x 16 gaps (space, tab, LF, CRLF, mixed runs, none where separable, line comments to EOL / inline / glued to their neighbours, block comments plain / glued / nested twice, comments containing quotes, braces, keywords, non-ASCII text, a mixture); random boundary subsets (1..all) with random gaps on generated module sets and on real-world modules that compile; both backends. Oracle: same Ok/Err and, with doc attributes removed, token-identical bindings. Scanner tie: verif_hooks::skip_trivia vs the Lean model on random trivia strings incl. unterminated comments and multi-byte text",
    );
    let mut rng = Rng::new(cfg.seed ^ 0x1313);
    let ins: Vec<Input> = if let Some(r) = &cfg.replay {
        let r = r.get("case").unwrap_or(r);
        vec![Input { label: "replay".into(), text: r["original"].as_str().unwrap_or("").to_string() }]
    } else {
        inputs(cfg)
    };
    for inp in &ins {
        let toks = tokenize(&inp.text);
        if toks.len() < 2 {
            continue;
        }
        let base_r = compile_rasn(&[inp.text.clone()]);
        let base_t = compile_ts(&[inp.text.clone()]);
        let (cb, ct) = (canon(&base_r, false), canon(&base_t, true));
        rep.count(&format!("input:{}:{}", inp.label.split(':').next().unwrap_or("").split('-').next().unwrap_or(""), if cb.starts_with("Ok") { "compiles" } else { "does-not-compile" }));
        if !cb.starts_with("Ok") {
            rep.count("base-not-ok(still compared)");
        }
        let exhaustive = !inp.label.starts_with("generated") && !inp.label.starts_with("real-world") && inp.label != "replay";
        let mut edit_sets: Vec<Vec<(usize, usize)>> = Vec::new();
        if let Some(r) = &cfg.replay {
            let r = r.get("case").unwrap_or(r);
            edit_sets.push(r["edits"].as_array().map(|a| a.iter().map(|e| (e[0].as_u64().unwrap_or(0) as usize, e[1].as_u64().unwrap_or(0) as usize)).collect()).unwrap_or_default());
        } else if exhaustive {
            for b in 0..toks.len() - 1 {
                for g in 0..GAPS.len() {
                    edit_sets.push(vec![(b, g)]);
                }
            }
        } else {
            let n = cfg.budget(40, 200);
            for k in 0..n {
                let how_many = match k % 4 {
                    0 => 1,
                    1 => 1 + rng.below(4),
                    2 => 1 + rng.below(toks.len() - 1),
                    _ => toks.len() - 1,
                };
                let mut e: Vec<(usize, usize)> = Vec::new();
                if how_many >= toks.len() - 1 {
                    let g = rng.below(GAPS.len());
                    for b in 0..toks.len() - 1 {
                        // one gap form everywhere (every fourth boundary random)
                        e.push((b, if b % 4 == 0 { rng.below(GAPS.len()) } else { g }));
                    }
                } else {
                    while e.len() < how_many {
                        let b = rng.below(toks.len() - 1);
                        if !e.iter().any(|(x, _)| *x == b) {
                            e.push((b, rng.below(GAPS.len())));
                        }
                    }
                }
                edit_sets.push(e);
            }
        }
        for edits in edit_sets {
            // drop the edits that would merge tokens; `.` and `@` are not exercised (whether X.680 / X.681 allow
            // white space around the dot of `Module.Type`, `CLASS.&field`, `@.component` is doubtful)
            let edits: Vec<(usize, usize)> = edits
                .into_iter()
                .filter(|(b, _)| {
                    let t1 = &inp.text[toks[*b].start..toks[*b].end];
                    let t2 = &inp.text[toks[*b + 1].start..toks[*b + 1].end];
                    // ... except behind the dot of a class field reference (`CLASS. &field`): X.681 9.x makes the dot and the
                    // field name two lexical items, and the lexer skips trivia there
                    (t1 == "." && t2.starts_with('&')) || !(t1 == "." || t2 == "." || t1 == "@" || t2 == "@")
                })
                .filter(|(b, g)| separable(&inp.text[toks[*b].start..toks[*b].end], GAPS[*g], &inp.text[toks[*b + 1].start..toks[*b + 1].end]))
                .collect();
            if edits.is_empty() {
                rep.count("gap:not-separable(skipped)");
                continue;
            }
            let Some(text) = relayout(&inp.text, &toks, &edits) else { continue };
            rep.evaluations += 1;
            for (_, g) in edits.iter().take(3) {
                rep.count(&format!("gap:{}", gap_kind(*g)));
            }
            rep.distinct.insert(format!("{}|{:?}", inp.label, edits.iter().take(4).collect::<Vec<_>>()));
            let r = canon(&compile_rasn(&[text.clone()]), false);
            let t = canon(&compile_ts(&[text.clone()]), true);
            for (which, a, b) in [("rasn", &cb, &r), ("typescript", &ct, &t)] {
                if a != b {
                    // shrink to a single boundary when one half of the edits fails on its own
                    let mut edits = edits.clone();
                    let mut text = text.clone();
                    let fails = |es: &[(usize, usize)]| -> Option<String> {
                        let t2 = relayout(&inp.text, &toks, es)?;
                        let c = if which == "rasn" { canon(&compile_rasn(&[t2.clone()]), false) } else { canon(&compile_ts(&[t2.clone()]), true) };
                        (&c != a).then_some(t2)
                    };
                    while edits.len() > 1 {
                        let mid = edits.len() / 2;
                        let (l, r2) = (edits[..mid].to_vec(), edits[mid..].to_vec());
                        if let Some(t2) = fails(&l) {
                            edits = l;
                            text = t2;
                        } else if let Some(t2) = fails(&r2) {
                            edits = r2;
                            text = t2;
                        } else {
                            break;
                        }
                    }
                    let b = &if which == "rasn" { canon(&compile_rasn(&[text.clone()]), false) } else { canon(&compile_ts(&[text.clone()]), true) };
                    let first = &edits[0];
                    let ctx = format!(
                        "after `{}` before `{}`",
                        &inp.text[toks[first.0].start..toks[first.0].end],
                        &inp.text[toks[first.0 + 1].start..toks[first.0 + 1].end]
                    );
                    let status = |s: &str| s.split(' ').next().unwrap_or("").to_string();
                    let why = if status(a) != status(b) {
                        format!("{which}: {} becomes {} when the gap {ctx} is written as {:?}{}", status(a), status(b), GAPS[first.1], if edits.len() > 1 { format!(" (+{} more boundaries)", edits.len() - 1) } else { String::new() })
                    } else {
                        format!("{which}: bindings differ when the gap {ctx} is written as {:?}", GAPS[first.1])
                    };
                    let class = classify(&inp.text, &toks, &edits);
                    rep.unsat(&class, class.starts_with("C13_"), json!({"why": why, "case": {"original": inp.text, "edits": edits.iter().map(|(b, g)| json!([b, g])).collect::<Vec<Value>>(), "relaid": text, "input": inp.label}}));
                    break;
                }
            }
        }
    }
    if cfg.replay.is_none() {
        scanner_correspondence(cfg, &mut rep);
    }
    rep
}

/// generalised token text: keywords and punctuation verbatim, everything else by kind
fn gen_tok(t: &str) -> String {
    let c = t.chars().next().unwrap_or(' ');
    if c.is_ascii_digit() {
        "<number>".into()
    } else if c == '"' {
        "<cstring>".into()
    } else if c == '\'' {
        "<bhstring>".into()
    } else if c.is_ascii_alphabetic() {
        if t.chars().all(|x| x.is_ascii_uppercase() || x == '-') && t.len() > 1 {
            t.to_string()
        } else if c.is_ascii_uppercase() {
            "<Reference>".into()
        } else {
            "<identifier>".into()
        }
    } else {
        t.to_string()
    }
}

/// finding class of a failing re-layout: the pair of tokens around a single edited boundary
fn classify(text: &str, toks: &[Tok], edits: &[(usize, usize)]) -> String {
    if edits.len() != 1 {
        return String::new();
    }
    let (b, g) = edits[0];
    // sections the lexer skips without interpreting them (once by `take_until("END")` / brace counting alone: the two
    // classes below were known findings until d481e20 / 5d0caf3; they are still named, so that a return is reported as such)
    let pos = toks[b].end;
    if let Some(ec) = text.find("ENCODING-CONTROL") {
        if pos > ec && GAPS[g].contains("END") {
            return "C13_END_in_comment_inside_encoding_control".into();
        }
    }
    if GAPS[g].contains('{') || GAPS[g].contains('}') {
        // inside the braces of CONSTRAINED BY { .. } ?
        let before = &text[..pos];
        if let Some(cb) = before.rfind("CONSTRAINED BY") {
            let seg = &before[cb..];
            let open = seg.matches('{').count();
            let close = seg.matches('}').count();
            if open > close {
                return "C13_brace_in_comment_inside_constrained_by".into();
            }
        }
    }
    let t1 = gen_tok(&text[toks[b].start..toks[b].end]);
    let t2 = gen_tok(&text[toks[b + 1].start..toks[b + 1].end]);
    let kind = if g >= 6 { "comment" } else if g == 5 { "no-space" } else { "whitespace" };
    format!("SITE {t1} {t2} {kind}")
}

fn scanner_correspondence(cfg: &RunCfg, rep: &mut Report) {
    let mut rng = Rng::new(cfg.seed ^ 0x5C13);
    let n = cfg.budget(3000, 60000);
    let pool = [" ", "\t", "\n", "\r\n", "--", "-", "/*", "*/", "*", "/", "a", "END", "\"", "{", "ü", "語", "- -", "--\n", "/**/", "x-y", "'"];
    let mut reqs = Vec::new();
    let mut obs = Vec::new();
    for k in 0..n {
        let len = if k % 5 == 0 { rng.below(4) } else { rng.below(14) };
        let mut s = String::new();
        for _ in 0..len {
            s.push_str(pool[rng.below(pool.len())]);
        }
        // the unchanged code panics on an unterminated block comment in some shapes (C08): isolate
        let s2 = s.clone();
        let r = std::panic::catch_unwind(move || rasn_compiler::verif_hooks::skip_trivia(&s2));
        reqs.push(format!("c13skip {}", hex(&s)));
        obs.push((s, r));
    }
    match run_driver(&reqs) {
        Ok(ans) => {
            for (a, (s, r)) in ans.iter().zip(obs.iter()) {
                rep.evaluations += 1;
                match r {
                    Ok(Some(off)) => {
                        rep.count("scanner:compared");
                        if a != &off.to_string() {
                            rep.disagree(json!({"difference": format!("skip_ws_and_comments consumes {off} bytes, the model {a}"), "case": {"text": s}}));
                        }
                    }
                    Ok(None) => rep.count("scanner:hook-error"),
                    Err(_) => {
                        // the unchanged code panics on some unterminated block comments (C08's business);
                        // a panic where the model skips a well-formed comment is a disagreement
                        let off: usize = a.parse().unwrap_or(usize::MAX);
                        if s.get(off..).map(|r| r.starts_with("/*")).unwrap_or(false) {
                            rep.count("scanner:panic-on-unterminated-block-comment(C08, not compared)");
                        } else {
                            rep.disagree(json!({"difference": format!("skip_ws_and_comments panics, the model skips {a} bytes"), "case": {"text": s}}));
                        }
                    }
                }
            }
        }
        Err(e) => rep.harness_errors.push(e),
    }
}

//! C18: TypeScript declarations have the JER shape of each type.
use crate::gen_types::*;
use crate::report::{Report, RunCfg};
use crate::util::*;
use serde_json::{json, Value};
use std::collections::{BTreeMap, BTreeSet};

// ---------------------------------------------------------------------------------------------
// a small structural parser of the TypeScript the backend emits
// ---------------------------------------------------------------------------------------------

#[derive(Clone, Debug, PartialEq)]
pub enum Tok {
    Id(String),
    Str(String),
    Num(String),
    P(char),
}

pub fn lex(s: &str) -> Result<Vec<Tok>, String> {
    let cs: Vec<char> = s.chars().collect();
    let mut i = 0;
    let mut out = Vec::new();
    while i < cs.len() {
        let c = cs[i];
        if c.is_whitespace() {
            i += 1;
        } else if c == '/' && cs.get(i + 1) == Some(&'/') {
            while i < cs.len() && cs[i] != '\n' {
                i += 1;
            }
        } else if c == '"' {
            let mut v = String::new();
            i += 1;
            loop {
                match cs.get(i) {
                    None => return Err("string literal left open".into()),
                    Some('\\') => {
                        if let Some(n) = cs.get(i + 1) {
                            v.push(match n {
                                'n' => '\n',
                                'r' => '\r',
                                x => *x,
                            });
                        }
                        i += 2;
                    }
                    Some('"') => {
                        i += 1;
                        break;
                    }
                    Some('\n') => return Err("line break inside a string literal".into()),
                    Some(x) => {
                        v.push(*x);
                        i += 1;
                    }
                }
            }
            out.push(Tok::Str(v));
        } else if c.is_alphabetic() || c == '_' || c == '$' {
            let st = i;
            while i < cs.len() && (cs[i].is_alphanumeric() || cs[i] == '_' || cs[i] == '$') {
                i += 1;
            }
            out.push(Tok::Id(cs[st..i].iter().collect()));
        } else if c.is_ascii_digit() || (c == '-' && cs.get(i + 1).map(|d| d.is_ascii_digit()).unwrap_or(false)) {
            let st = i;
            i += 1;
            while i < cs.len() && (cs[i].is_ascii_alphanumeric() || cs[i] == '.') {
                i += 1;
            }
            out.push(Tok::Num(cs[st..i].iter().collect()));
        } else {
            out.push(Tok::P(c));
            i += 1;
        }
    }
    Ok(out)
}

#[derive(Clone, Debug, PartialEq)]
pub enum TsTy {
    Name(String),
    Lit(String),
    Obj(Vec<(String, bool, TsTy)>, bool),
    Arr(Box<TsTy>),
    Union(Vec<TsTy>),
}

impl TsTy {
    pub fn sx(&self) -> String {
        match self {
            TsTy::Name(n) => format!("( n {} )", hex(n)),
            TsTy::Lit(l) => format!("( l {} )", hex(l)),
            TsTy::Obj(ms, idx) => format!("( o {} {} )", sx_list(ms.iter().map(|(n, o, t)| format!("( m {} {} {} )", hex(n), sx_bool(*o), t.sx()))), sx_bool(*idx)),
            TsTy::Arr(t) => format!("( a {} )", t.sx()),
            TsTy::Union(ts) => format!("( u {} )", sx_list(ts.iter().map(|t| t.sx()))),
        }
    }
    pub fn names(&self, out: &mut BTreeSet<String>) {
        match self {
            TsTy::Name(n) => {
                out.insert(n.clone());
            }
            TsTy::Lit(_) => {}
            TsTy::Obj(ms, _) => ms.iter().for_each(|m| m.2.names(out)),
            TsTy::Arr(t) => t.names(out),
            TsTy::Union(ts) => ts.iter().for_each(|t| t.names(out)),
        }
    }
}

#[derive(Clone, Debug)]
pub enum TsDecl {
    Alias(String, TsTy),
    Enum(String, Vec<(String, String)>),
    Const(String),
}

#[derive(Clone, Debug, Default)]
pub struct TsNamespace {
    pub name: String,
    /// alias → (namespace, name)
    pub imports: Vec<(String, String, String)>,
    pub decls: Vec<TsDecl>,
}

struct P {
    t: Vec<Tok>,
    i: usize,
}

impl P {
    fn peek(&self) -> Option<&Tok> {
        self.t.get(self.i)
    }
    fn eat_p(&mut self, c: char) -> bool {
        if self.peek() == Some(&Tok::P(c)) {
            self.i += 1;
            true
        } else {
            false
        }
    }
    fn expect_p(&mut self, c: char) -> Result<(), String> {
        if self.eat_p(c) {
            Ok(())
        } else {
            Err(format!("expected `{c}` at token {} ({:?})", self.i, self.peek()))
        }
    }
    fn id(&mut self) -> Result<String, String> {
        match self.peek().cloned() {
            Some(Tok::Id(s)) => {
                self.i += 1;
                Ok(s)
            }
            other => Err(format!("expected an identifier at token {} ({other:?})", self.i)),
        }
    }
    fn eat_kw(&mut self, k: &str) -> bool {
        if self.peek() == Some(&Tok::Id(k.to_string())) {
            self.i += 1;
            true
        } else {
            false
        }
    }
    // Type := Postfix ('|' Postfix)*
    fn ty(&mut self) -> Result<TsTy, String> {
        let mut alts = vec![self.postfix()?];
        while self.eat_p('|') {
            alts.push(self.postfix()?);
        }
        Ok(if alts.len() == 1 { alts.pop().unwrap() } else { TsTy::Union(alts) })
    }
    fn postfix(&mut self) -> Result<TsTy, String> {
        let mut t = self.primary()?;
        while self.peek() == Some(&Tok::P('[')) && self.t.get(self.i + 1) == Some(&Tok::P(']')) {
            self.i += 2;
            t = TsTy::Arr(Box::new(t));
        }
        Ok(t)
    }
    fn primary(&mut self) -> Result<TsTy, String> {
        match self.peek().cloned() {
            Some(Tok::Id(s)) => {
                self.i += 1;
                Ok(TsTy::Name(s))
            }
            Some(Tok::Str(s)) => {
                self.i += 1;
                Ok(TsTy::Lit(s))
            }
            Some(Tok::P('(')) => {
                self.i += 1;
                let t = self.ty()?;
                self.expect_p(')')?;
                Ok(t)
            }
            Some(Tok::P('{')) => {
                self.i += 1;
                let mut ms = Vec::new();
                let mut idx = false;
                loop {
                    if self.eat_p('}') {
                        break;
                    }
                    if self.eat_p('[') {
                        // [key: string]: any
                        let _ = self.id()?;
                        self.expect_p(':')?;
                        let _ = self.ty()?;
                        self.expect_p(']')?;
                        self.expect_p(':')?;
                        let _ = self.ty()?;
                        idx = true;
                    } else {
                        let n = self.id()?;
                        let opt = self.eat_p('?');
                        self.expect_p(':')?;
                        let t = self.ty()?;
                        ms.push((n, opt, t));
                    }
                    if !self.eat_p(',') && !self.eat_p(';') {
                        self.expect_p('}')?;
                        break;
                    }
                }
                Ok(TsTy::Obj(ms, idx))
            }
            other => Err(format!("expected a type at token {} ({other:?})", self.i)),
        }
    }
    /// skip a value expression up to the `;` at nesting depth 0; fails on unbalanced delimiters
    fn skip_value(&mut self) -> Result<(), String> {
        let mut stack: Vec<char> = Vec::new();
        loop {
            match self.peek().cloned() {
                None => return Err("value expression runs to the end of the file".into()),
                Some(Tok::P(';')) if stack.is_empty() => {
                    self.i += 1;
                    return Ok(());
                }
                Some(Tok::P(c)) if c == '{' || c == '[' || c == '(' => {
                    stack.push(c);
                    self.i += 1;
                }
                Some(Tok::P(c)) if c == '}' || c == ']' || c == ')' => {
                    let want = match c {
                        '}' => '{',
                        ']' => '[',
                        _ => '(',
                    };
                    if stack.pop() != Some(want) {
                        return Err(format!("unbalanced `{c}` in a value at token {}", self.i));
                    }
                    self.i += 1;
                }
                Some(_) => self.i += 1,
            }
        }
    }
}

pub fn parse_ts(text: &str) -> Result<Vec<TsNamespace>, String> {
    let mut p = P { t: lex(text)?, i: 0 };
    let mut out = Vec::new();
    while p.peek().is_some() {
        if !(p.eat_kw("export") && p.eat_kw("namespace")) {
            return Err(format!("expected `export namespace` at token {} ({:?})", p.i, p.peek()));
        }
        let mut ns = TsNamespace { name: p.id()?, ..Default::default() };
        p.expect_p('{')?;
        loop {
            if p.eat_p('}') {
                break;
            }
            if p.eat_kw("import") {
                let alias = p.id()?;
                p.expect_p('=')?;
                let m = p.id()?;
                p.expect_p('.')?;
                let n = p.id()?;
                p.expect_p(';')?;
                ns.imports.push((alias, m, n));
                continue;
            }
            if !p.eat_kw("export") {
                return Err(format!("expected a declaration at token {} ({:?})", p.i, p.peek()));
            }
            if p.eat_kw("type") {
                let n = p.id()?;
                p.expect_p('=')?;
                let t = p.ty()?;
                p.expect_p(';')?;
                ns.decls.push(TsDecl::Alias(n, t));
            } else if p.eat_kw("enum") {
                let n = p.id()?;
                p.expect_p('{')?;
                let mut ms = Vec::new();
                loop {
                    if p.eat_p('}') {
                        break;
                    }
                    let id = p.id()?;
                    p.expect_p('=')?;
                    let v = match p.peek().cloned() {
                        Some(Tok::Str(s)) => {
                            p.i += 1;
                            s
                        }
                        other => return Err(format!("enum member without a string value ({other:?})")),
                    };
                    ms.push((id, v));
                    if !p.eat_p(',') {
                        p.expect_p('}')?;
                        break;
                    }
                }
                let _ = p.eat_p(';');
                ns.decls.push(TsDecl::Enum(n, ms));
            } else if p.eat_kw("const") {
                let n = p.id()?;
                p.expect_p('=')?;
                p.skip_value()?;
                ns.decls.push(TsDecl::Const(n));
            } else {
                return Err(format!("unknown declaration at token {} ({:?})", p.i, p.peek()));
            }
        }
        out.push(ns);
    }
    Ok(out)
}

// ---------------------------------------------------------------------------------------------

#[derive(Clone, Debug)]
pub struct Case {
    pub name: String,
    pub ty: Ty,
}

const BUILTINS: [&str; 7] = ["number", "boolean", "null", "string", "any", "object", "undefined"];

fn mangle(s: &str) -> String {
    s.replace('-', "_")
}

const VALUES: [&str; 11] = [
    "val-int{k} INTEGER ::= 5",
    "val-bool{k} BOOLEAN ::= TRUE",
    "val-str{k} UTF8String ::= \"plain\"",
    "val-quote{k} UTF8String ::= \"say \"\"hi\"\" }{ ]\"",
    "val-qparen{k} UTF8String ::= \"see \"\"(a\"\" then b\"",
    "val-qbrace{k} UTF8String ::= \"\"\"{\"\"[\"\"(\"",
    "val-backslash{k} UTF8String ::= \"a\\\"\"(b\\\\\"",
    "val-oct{k} OCTET STRING ::= 'AB'H",
    "val-seq{k} Ref-Seq ::= { x TRUE }",
    "val-null{k} NULL ::= NULL",
    "val-imp{k} Imp-Type ::= 7",
];

/// the notation of the case; a top-level ENUMERATED gets, depending on its number, a comment behind every
/// enumeral (the lexer keeps those as descriptions and the backend prints them behind the member): to the end
/// of the line, or a block comment spanning several lines with braces, quotes and commas in it
fn commented(c: &Case) -> String {
    let n: usize = c.name.chars().filter(|ch| ch.is_ascii_digit()).collect::<String>().parse().unwrap_or(0);
    match (&c.ty, n % 3) {
        (Ty::Enum { root, marker, adds }, style) if style > 0 => {
            let note = |i: usize| if style == 1 { format!(" -- note {i}\n") } else { format!(" /* note {i}\n }} stays = \"q\", {{ here\n*/ ") };
            let mut parts: Vec<String> = root.clone();
            if *marker {
                parts.push("...".into());
            }
            parts.extend(adds.iter().cloned());
            let last = parts.len().saturating_sub(1);
            let body: String = parts.iter().enumerate().map(|(i, p)| if i < last { format!("{p},{}", note(i)) } else { format!("{p}{}", note(i)) }).collect();
            format!("ENUMERATED {{ {body} }}")
        }
        _ => c.ty.asn(),
    }
}

fn module_text(cases: &[Case], k: usize, with_values: bool) -> Vec<String> {
    module_text_clause(cases, k, with_values, k % 2 == 0)
}

fn module_text_clause(cases: &[Case], k: usize, with_values: bool, class_clause: bool) -> Vec<String> {
    // every other module set lists a class and a parameterized type (symbols without a TypeScript counterpart) in the
    // middle of the clause, in front of symbols that are used
    let clause = if class_clause { "Imp-Type, IMP-CLASS, imp-val, Par-T{}, E164, X-509, T1" } else { "Imp-Type, imp-val, E164, X-509, T1" };
    let mut s = format!("Ts-Mod-A DEFINITIONS AUTOMATIC TAGS ::= BEGIN\nIMPORTS {clause} FROM Ts-Mod-B;\n");
    s.push_str(BASE_DEFS);
    for c in cases {
        // some assignments carry a comment of several lines in front, with the closing delimiter of a block comment in it
        let n: usize = c.name.chars().filter(|ch| ch.is_ascii_digit()).collect::<String>().parse().unwrap_or(0);
        match n % 10 {
            3 => s.push_str("-- first line a/*/b }\n-- second */ line {\n"),
            7 => s.push_str("/* outer /* nested */ still\n outer } */\n"),
            // continuation lines that begin in column one / directly behind the dashes
            5 => s.push_str("--first line\n--Old ::= SEQUENCE { a INTEGER\n--\tb BOOLEAN\n"),
            9 => s.push_str("/* a block\nOld ::= SEQUENCE {\n\ttab [0] NULL\nlast line */\n"),
            _ => {}
        }
        s.push_str(&format!("{} ::= {}\n", c.name, commented(c)));
    }
    if with_values {
        for v in VALUES {
            s.push_str(&v.replace("{k}", &k.to_string()));
            s.push('\n');
        }
    }
    s.push_str("END\n");
    vec![s, "Ts-Mod-B DEFINITIONS ::= BEGIN\nImp-Type ::= INTEGER (0..9)\nimp-val INTEGER ::= 3\nE164 ::= IA5String\nX-509 ::= OCTET STRING\nT1 ::= SEQUENCE { a BOOLEAN }\nIMP-CLASS ::= CLASS { &id INTEGER UNIQUE }\nPar-T { P } ::= SEQUENCE { p P }\nEND\n".into()]
}

pub fn gen_cases(cfg: &RunCfg) -> Vec<Case> {
    let mut rng = Rng::new(cfg.seed ^ 0xC18);
    let n = cfg.budget(500, 6000);
    let mut out = Vec::new();
    // fixed shapes first: the clauses of the statement one by one
    let c = |n: &str, t: Ty, o: Opt| Comp { name: n.into(), tag: None, ty: t, opt: o };
    let fixed: Vec<Ty> = vec![
        Ty::SeqOf { set: false, elem: Box::new(Ty::Enum { root: vec!["p".into(), "q".into()], marker: false, adds: vec![] }), elem_tag: None },
        Ty::SeqOf { set: true, elem: Box::new(Ty::Choice { root: vec![c("a", Ty::Prim("INTEGER"), Opt::Req), c("b", Ty::Prim("BOOLEAN"), Opt::Req)], marker: false, adds: vec![] }), elem_tag: None },
        Ty::SeqOf { set: false, elem: Box::new(Ty::SeqOf { set: false, elem: Box::new(Ty::Enum { root: vec!["only".into()], marker: false, adds: vec![] }), elem_tag: None }), elem_tag: None },
        // arrays of arrays (and one level more) of inline unions
        Ty::SeqOf { set: false, elem: Box::new(Ty::SeqOf { set: false, elem: Box::new(Ty::Choice { root: vec![c("a", Ty::Prim("NULL"), Opt::Req), c("b", Ty::Prim("BOOLEAN"), Opt::Req)], marker: false, adds: vec![] }), elem_tag: None }), elem_tag: None },
        Ty::SeqOf { set: true, elem: Box::new(Ty::SeqOf { set: false, elem: Box::new(Ty::SeqOf { set: false, elem: Box::new(Ty::Enum { root: vec!["p".into(), "q".into()], marker: false, adds: vec![] }), elem_tag: None }), elem_tag: None }), elem_tag: None },
        Ty::Seq { set: false, root: vec![c("grid", Ty::SeqOf { set: false, elem: Box::new(Ty::SeqOf { set: true, elem: Box::new(Ty::Choice { root: vec![c("x", Ty::Prim("INTEGER"), Opt::Req), c("y", Ty::Prim("NULL"), Opt::Req)], marker: false, adds: vec![] }), elem_tag: None }), elem_tag: None }, Opt::Optional)], marker: false, adds: vec![] },
        Ty::Seq {
            set: false,
            root: vec![c("a-field", Ty::Prim("INTEGER"), Opt::Req), c("b", Ty::Prim("BOOLEAN"), Opt::Optional), c("c", Ty::Prim("INTEGER"), Opt::Default("5".into()))],
            marker: true,
            adds: vec![Add::Comp(c("d", Ty::Ref("Imp-Type".into()), Opt::Req)), Add::Group(Some(2), vec![c("e", Ty::Prim("NULL"), Opt::Req), c("f", Ty::Ref("Ref-Seq".into()), Opt::Optional)])],
        },
        Ty::Seq { set: true, root: vec![], marker: false, adds: vec![] },
        Ty::Prim("OCTET STRING"),
        Ty::Prim("BIT STRING"),
        Ty::Prim("INTEGER"),
        Ty::Ref("Imp-Type".into()),
        Ty::Ref("Ref-Choice".into()),
        Ty::Ref("E164".into()),
        Ty::SeqOf { set: false, elem: Box::new(Ty::Ref("X-509".into())), elem_tag: None },
        Ty::Seq { set: false, root: vec![c("t", Ty::Ref("T1".into()), Opt::Req), c("n", Ty::Ref("E164".into()), Opt::Optional)], marker: false, adds: vec![] },
        Ty::Enum { root: vec!["red-one".into(), "green".into()], marker: true, adds: vec!["blue".into()] },
        Ty::Choice { root: vec![c("x-y", Ty::Prim("NULL"), Opt::Req)], marker: true, adds: vec![Add::Comp(c("w", Ty::SeqOf { set: false, elem: Box::new(Ty::Prim("INTEGER")), elem_tag: None }, Opt::Req))] },
    ];
    for t in fixed {
        out.push(Case { name: if out.len() % 3 == 1 { format!("Tk-{}E", out.len()) } else { format!("Tk{}E", out.len()) }, ty: t });
    }
    while out.len() < n {
        let mut g = TyGen { rng: &mut rng, cfg: GenCfg { max_depth: 4, max_comps: 5, tags: out.len() % 3 == 0, groups: true, defaults: true } };
        let ty = if out.len() % 7 == 0 { g.ty(4) } else if out.len() % 11 == 0 { Ty::Ref(REFS[out.len() % 4].to_string()) } else { g.top() };
        out.push(Case { name: if out.len() % 3 == 1 { format!("Tk-{}E", out.len()) } else { format!("Tk{}E", out.len()) }, ty });
    }
    out
}

fn case_json(c: &Case) -> Value {
    json!({"name": c.name, "asn1": c.ty.asn(), "ty": c.ty.sx()})
}

pub fn run(cfg: &RunCfg) -> Report {
    let mut rep = Report::new(
        "C18",
        "type assignments of the supported-notation generator (every built-in type, SEQUENCE / SET with extension markers, additions and version groups, CHOICE, ENUMERATED, SEQUENCE OF / SET OF of anything incl. inline CHOICE / ENUMERATED, anonymous nesting to depth 4, references incl. to an imported type, top-level primitives and aliases; top-level ENUMERATEDs also with line / multi-line block comments behind their enumerals) in a two-module set with IMPORTS and value assignments (strings containing quotes, braces and brackets). The TypeScript output is parsed by a structural parser (namespaces, imports, `export type`, `export enum`, `export const`; it fails on unbalanced delimiters or trailing text). Model tie: parse tree of each declaration = modelDecl(source). Oracle: = specDecl(source) (JER shape); exactly one exported declaration per type assignment under the mangled name inside the module's namespace; every mentioned type name declared in the namespace, imported or built-in",
    );
    let cases: Vec<Case> = if let Some(r) = &cfg.replay {
        let r = r.get("case").unwrap_or(r);
        match r["ty"].as_str().and_then(parse_sx).and_then(|s| Ty::from_sx(&s)) {
            Some(ty) => vec![Case { name: r["name"].as_str().unwrap_or("Tk0E").to_string(), ty }],
            None => vec![],
        }
    } else {
        gen_cases(cfg)
    };
    // compile in chunks, bisecting chunks that do not compile
    let mut reqs: Vec<String> = Vec::new();
    let mut meta: Vec<usize> = Vec::new();
    // every chunk is compiled twice: with the plain IMPORTS clause and with the clause that lists a class and a
    // parameterized type between the used symbols
    let mut work: Vec<(Vec<usize>, bool)> = (0..cases.len()).collect::<Vec<_>>().chunks(40).flat_map(|c| [(c.to_vec(), false), (c.to_vec(), true)]).collect();
    let mut chunk_no = 0;
    while let Some((idx, class_clause)) = work.pop() {
        chunk_no += 1;
        let sel: Vec<Case> = idx.iter().map(|i| cases[*i].clone()).collect();
        let srcs = module_text_clause(&sel, chunk_no, true, class_clause);
        match compile_ts(&srcs) {
            Outcome::Ok { generated, warnings } => {
                let nss = match parse_ts(&generated) {
                    Ok(n) => n,
                    Err(e) => {
                        if idx.len() > 1 {
                            let mid = idx.len() / 2;
                            work.push((idx[..mid].to_vec(), class_clause));
                            work.push((idx[mid..].to_vec(), class_clause));
                        } else {
                            rep.evaluations += 1;
                            rep.unsat("", false, json!({"why": format!("the generated TypeScript does not parse structurally (unbalanced delimiters or broken declaration): {e}"), "case": case_json(&cases[idx[0]])}));
                        }
                        continue;
                    }
                };
                let Some(ns) = nss.iter().find(|n| n.name == "Ts_Mod_A") else {
                    rep.unsat("", false, json!({"why": "no namespace Ts_Mod_A in the output", "case": case_json(&cases[idx[0]])}));
                    continue;
                };
                let mut declared: BTreeMap<String, usize> = BTreeMap::new();
                for d in &ns.decls {
                    let n = match d {
                        TsDecl::Alias(n, _) | TsDecl::Enum(n, _) | TsDecl::Const(n) => n,
                    };
                    *declared.entry(n.clone()).or_default() += 1;
                }
                let imported: BTreeSet<String> = ns.imports.iter().map(|i| i.0.clone()).collect();
                // imports resolve to declarations of the sibling namespace
                for (alias, m, n) in &ns.imports {
                    let ok = nss.iter().any(|o| &o.name == m && o.decls.iter().any(|d| matches!(d, TsDecl::Alias(x, _) | TsDecl::Enum(x, _) | TsDecl::Const(x) if x == n)));
                    if !ok || alias != n {
                        // a parameterized type has no declaration of its own; that its name is imported all the same is a listed finding
                        let template = n == "Par_T" && alias == n;
                        rep.unsat(if template { "C18_import_of_parameterized_type" } else { "" }, template, json!({"why": format!("import {alias} = {m}.{n} does not name a declaration of namespace {m}"), "case": case_json(&cases[idx[0]])}));
                    }
                }
                // values: one const each
                for v in VALUES {
                    let vn = mangle(&v.split(' ').next().unwrap().replace("{k}", &chunk_no.to_string()));
                    if declared.get(&vn) != Some(&1) && !warnings.iter().any(|w| w.contains(&vn.replace('_', "-"))) {
                        rep.count("value-without-const-or-warning(C10)");
                    }
                }
                for i in &idx {
                    let c = &cases[*i];
                    rep.evaluations += 1;
                    rep.distinct.insert(c.ty.sx());
                    rep.count(match &c.ty {
                        Ty::Prim(_) => "top:primitive",
                        Ty::Ref(_) => "top:alias",
                        Ty::Seq { .. } => "top:sequence/set",
                        Ty::Choice { .. } => "top:choice",
                        Ty::Enum { .. } => "top:enumerated",
                        Ty::SeqOf { .. } => "top:sequence-of/set-of",
                    });
                    let mn = mangle(&c.name);
                    let warned = warnings.iter().any(|w| w.contains(&c.name));
                    let ds: Vec<&TsDecl> = ns.decls.iter().filter(|d| matches!(d, TsDecl::Alias(n, _) | TsDecl::Enum(n, _) | TsDecl::Const(n) if n == &mn)).collect();
                    if ds.len() != 1 {
                        if warned && ds.is_empty() {
                            rep.count("warned-instead-of-declared(C10)");
                        } else {
                            rep.unsat("", false, json!({"why": format!("{} exported declarations named {mn} in namespace Ts_Mod_A (expected exactly one)", ds.len()), "case": case_json(c)}));
                        }
                        continue;
                    }
                    let (dsx, mentioned) = match ds[0] {
                        TsDecl::Alias(n, t) => {
                            let mut names = BTreeSet::new();
                            t.names(&mut names);
                            (format!("( alias {} {} )", hex(n), t.sx()), names)
                        }
                        TsDecl::Enum(n, ms) => (format!("( enum {} {} )", hex(n), sx_list(ms.iter().map(|(i, v)| format!("( {} {} )", hex(i), hex(v))))), BTreeSet::new()),
                        TsDecl::Const(_) => {
                            rep.unsat("", false, json!({"why": format!("{mn} is declared as a const, not a type"), "case": case_json(c)}));
                            continue;
                        }
                    };
                    for m in &mentioned {
                        if !BUILTINS.contains(&m.as_str()) && !declared.contains_key(m) && !imported.contains(m) {
                            rep.unsat("", false, json!({"why": format!("{mn} mentions `{m}`, which is neither declared in the namespace nor imported nor built in"), "case": case_json(c)}));
                        }
                    }
                    reqs.push(format!("c18 {} {} {}", hex(&c.name), c.ty.sx(), dsx));
                    meta.push(*i);
                }
            }
            other => {
                if idx.len() > 1 {
                    let mid = idx.len() / 2;
                    work.push((idx[..mid].to_vec(), class_clause));
                    work.push((idx[mid..].to_vec(), class_clause));
                } else {
                    rep.evaluations += 1;
                    match other {
                        Outcome::Err(e) => {
                            rep.count("compile-err(not judged: C08/C10)");
                            rep.sample(json!({"compile_err": e, "asn1": cases[idx[0]].ty.asn()}));
                        }
                        Outcome::Panic(p) => {
                            rep.count("compile-panic(not judged: C08)");
                            rep.sample(json!({"compile_panic": p, "asn1": cases[idx[0]].ty.asn()}));
                        }
                        _ => {}
                    }
                }
            }
        }
    }
    match run_driver(&reqs) {
        Ok(ans) => {
            for (a, i) in ans.iter().zip(meta.iter()) {
                let c = &cases[*i];
                let Some((model, spec)) = a.split_once('|') else {
                    rep.harness_errors.push(format!("driver answer `{a}`"));
                    continue;
                };
                if model != "ok" {
                    rep.disagree(json!({"difference": model, "case": case_json(c)}));
                }
                if spec != "ok" {
                    rep.unsat("", model == "ok", json!({"why": spec, "case": case_json(c)}));
                }
                if *i % 211 == 0 {
                    rep.sample(json!({"asn1": c.ty.asn(), "answer": a}));
                }
            }
        }
        Err(e) => rep.harness_errors.push(e),
    }
    if cfg.replay.is_none() {
        list_values(cfg, &mut rep);
    }
    rep
}

/// Constants of list types (lists of integers nested to depth 3, empty lists at every level): the initialiser the
/// TypeScript backend prints = the model of its `LinkedArrayLikeValue` arm (`Ts/Values.renderList`), = the text
/// written down from the description, and its brackets are balanced.
#[derive(Clone, Debug)]
enum Lv {
    Int(i64),
    List(Vec<Lv>),
}
impl Lv {
    fn asn(&self) -> String {
        match self {
            Lv::Int(n) => n.to_string(),
            Lv::List(xs) if xs.is_empty() => "{ }".into(),
            Lv::List(xs) => format!("{{ {} }}", xs.iter().map(|x| x.asn()).collect::<Vec<_>>().join(", ")),
        }
    }
    fn sx(&self) -> String {
        match self {
            Lv::Int(n) => n.to_string(),
            Lv::List(xs) => format!("( l {} )", xs.iter().map(|x| x.sx()).collect::<Vec<_>>().join(" ")),
        }
    }
    fn ts(&self) -> String {
        match self {
            Lv::Int(n) => n.to_string(),
            Lv::List(xs) => format!("[{}]", xs.iter().map(|x| x.ts()).collect::<Vec<_>>().join(",")),
        }
    }
}
fn gen_lv(rng: &mut Rng, depth: usize) -> Lv {
    if depth == 0 {
        return Lv::Int(rng.range(-20, 5000));
    }
    let n = [0usize, 0, 1, 2, 3, 5][rng.below(6)];
    Lv::List((0..n).map(|_| gen_lv(rng, depth - 1)).collect())
}
fn list_values(cfg: &RunCfg, rep: &mut Report) {
    let mut rng = Rng::new(cfg.seed ^ 0xC18_715);
    let n = cfg.budget(150, 3000);
    let mut vals: Vec<(usize, Lv)> = Vec::new();
    for k in 0..n {
        let depth = 1 + k % 3;
        vals.push((depth, gen_lv(&mut rng, depth)));
    }
    for chunk in vals.chunks(50).enumerate().map(|(ci, c)| (ci, c.to_vec())).collect::<Vec<_>>() {
        let (ci, chunk) = chunk;
        let mut text = String::from("Ts-List-Values DEFINITIONS AUTOMATIC TAGS ::= BEGIN\nLst1 ::= SEQUENCE OF INTEGER\nLst2 ::= SEQUENCE OF Lst1\n");
        for (j, (depth, v)) in chunk.iter().enumerate() {
            let ty = match (depth, j % 2) {
                (1, 0) => "SEQUENCE OF INTEGER".to_string(),
                (1, _) => "Lst1".to_string(),
                (2, 0) => "SEQUENCE OF SEQUENCE OF INTEGER".to_string(),
                (2, _) => "Lst2".to_string(),
                (_, 0) => "SEQUENCE OF SEQUENCE OF SET OF INTEGER".to_string(),
                _ => "SEQUENCE OF Lst2".to_string(),
            };
            text.push_str(&format!("lv{ci}x{j} {ty} ::= {}\n", v.asn()));
        }
        text.push_str("END\n");
        let Outcome::Ok { generated, .. } = compile_ts(&[text.clone()]) else {
            rep.count("list-values:compile-failed");
            continue;
        };
        let sq: String = generated.split_whitespace().collect::<Vec<_>>().join(" ");
        let reqs: Vec<String> = chunk.iter().map(|(_, v)| format!("tslist {}", v.sx())).collect();
        let Ok(ans) = run_driver(&reqs) else {
            rep.harness_errors.push("driver failed on tslist".into());
            continue;
        };
        for (j, ((_, v), a)) in chunk.iter().zip(ans.iter()).enumerate() {
            rep.evaluations += 1;
            let name = format!("lv{ci}x{j}");
            let case = json!({"kind": "list-value", "asn1": format!("{name} ::= {}", v.asn())});
            let Some(pos) = sq.find(&format!("export const {name} = ")) else {
                rep.count("list-values:no-constant");
                continue;
            };
            let init: String = sq[pos + format!("export const {name} = ").len()..].chars().take_while(|c| *c != ';').collect::<String>().split_whitespace().collect();
            rep.count("list-values");
            let model = unhex(a).or_else(|| unhex(a.trim_start_matches('x'))).unwrap_or_default();
            if model != init {
                rep.disagree(json!({"case": case, "model": model, "implementation": init, "model_of": "Ts.Values.renderList"}));
            }
            let mut depth = 0i64;
            let mut ok = true;
            for ch in init.chars() {
                match ch {
                    '[' => depth += 1,
                    ']' => {
                        depth -= 1;
                        if depth < 0 {
                            ok = false;
                        }
                    }
                    _ => {}
                }
            }
            if !ok || depth != 0 {
                rep.unsat("", model == init, json!({"why": format!("the brackets of the constant `{init}` are not balanced"), "case": case}));
            } else if init != v.ts() {
                rep.unsat("", model == init, json!({"why": format!("the constant is `{init}`, the value is `{}`", v.ts()), "case": case}));
            }
        }
    }
}

//! C03: tags and tagging mode under the module's tagging environment.
use super::structs::*;
use crate::gen_types::*;
use crate::report::{Report, RunCfg};
use crate::util::*;

const CLASSES: [&str; 4] = ["context", "application", "private", "universal"];
const KWS: [&str; 3] = ["none", "implicit", "explicit"];
const POSITIONS: [&str; 6] = ["type-assignment", "sequence-component", "set-component", "choice-alternative", "nested-component", "of-element"];
const KINDS: [&str; 5] = ["primitive", "referenced-sequence", "referenced-choice", "inline-choice", "open-type"];

fn kind_ty(kind: &str) -> Ty {
    match kind {
        "primitive" => Ty::Prim("INTEGER"),
        "referenced-sequence" => Ty::Ref("Ref-Seq".into()),
        "referenced-choice" => Ty::Ref("Ref-Choice".into()),
        "inline-choice" => Ty::Choice {
            root: vec![
                Comp { name: "ca".into(), tag: None, ty: Ty::Prim("NULL"), opt: Opt::Req },
                Comp { name: "cb".into(), tag: None, ty: Ty::Prim("BOOLEAN"), opt: Opt::Req },
            ],
            marker: false,
            adds: vec![],
        },
        _ => Ty::Prim("ANY"),
    }
}

fn point(env: &'static str, kw: &'static str, class: &'static str, pos: &str, kind: &str, num: u64) -> Case {
    let tag = Some(Tag { class, num, kw });
    let ty = kind_ty(kind);
    let other = Comp { name: "other".into(), tag: None, ty: Ty::Prim("BOOLEAN"), opt: Opt::Req };
    let tagged = |ty: Ty| Comp { name: "tagged".into(), tag: tag.clone(), ty, opt: Opt::Req };
    match pos {
        "type-assignment" => Case { env, implied: false, tag, ty },
        "sequence-component" | "set-component" => Case {
            env,
            implied: false,
            tag: None,
            ty: Ty::Seq { set: pos == "set-component", root: vec![tagged(ty), other], marker: false, adds: vec![] },
        },
        "choice-alternative" => Case { env, implied: false, tag: None, ty: Ty::Choice { root: vec![tagged(ty), other], marker: false, adds: vec![] } },
        "nested-component" => Case {
            env,
            implied: false,
            tag: None,
            ty: Ty::Seq {
                set: false,
                root: vec![Comp {
                    name: "outer".into(),
                    tag: None,
                    ty: Ty::Seq { set: false, root: vec![tagged(ty), other.clone()], marker: false, adds: vec![] },
                    opt: Opt::Req,
                }],
                marker: false,
                adds: vec![],
            },
        },
        _ => Case { env, implied: false, tag: None, ty: Ty::SeqOf { set: num % 2 == 1, elem: Box::new(ty), elem_tag: tag } },
    }
}

pub fn exhaustive() -> (Vec<Case>, Vec<String>) {
    let mut cases = Vec::new();
    let mut labels = Vec::new();
    let mut n = 0u64;
    for env in ENVS {
        for kw in KWS {
            for class in CLASSES {
                for pos in POSITIONS {
                    for kind in KINDS {
                        n += 1;
                        cases.push(point(env, kw, class, pos, kind, n % 30));
                        labels.push(format!("{env}/{kw}/{class}/{pos}/{kind}"));
                    }
                }
            }
        }
    }
    (cases, labels)
}

/// automatic-tagging shapes: no component tagged / one tagged (each class) / tag only inside a nested type
fn automatic_shapes() -> Vec<Case> {
    let mut cases = Vec::new();
    let plain = |n: &str| Comp { name: n.into(), tag: None, ty: Ty::Prim("BOOLEAN"), opt: Opt::Req };
    for env in ENVS {
        for choice in [false, true] {
            for tagged_at in [None, Some(0usize), Some(1), Some(2)] {
                for class in CLASSES {
                    let mut comps = vec![plain("a"), plain("b"), plain("c")];
                    if let Some(i) = tagged_at {
                        comps[i].tag = Some(Tag { class, num: 7, kw: "none" });
                    } else if class != "context" {
                        continue;
                    }
                    let ty = if choice { Ty::Choice { root: comps.clone(), marker: false, adds: vec![] } } else { Ty::Seq { set: false, root: comps.clone(), marker: false, adds: vec![] } };
                    cases.push(Case { env, implied: false, tag: None, ty });
                    // tag only inside a nested anonymous type: the outer type has no tagged component of its own
                    if tagged_at.is_some() {
                        let inner = Ty::Seq { set: false, root: comps.clone(), marker: false, adds: vec![] };
                        cases.push(Case { env, implied: false, tag: None, ty: Ty::Seq { set: false, root: vec![plain("x"), Comp { name: "inner".into(), tag: None, ty: inner, opt: Opt::Req }], marker: false, adds: vec![] } });
                        // tagged component after the extension marker
                        cases.push(Case { env, implied: false, tag: None, ty: Ty::Seq { set: false, root: vec![plain("x")], marker: true, adds: comps.iter().cloned().map(Add::Comp).collect() } });
                    }
                }
            }
        }
    }
    cases
}

fn describe(c: &Case) -> Vec<String> {
    let mut d = vec![format!("default:{}", c.env)];
    fn tags(t: &Ty, depth: usize, d: &mut Vec<String>) {
        let mut comp = |c: &Comp, d: &mut Vec<String>| {
            if let Some(t) = &c.tag {
                d.push(format!("tag:depth{}:{}:{}", depth + 1, t.kw, t.class));
            }
            tags(&c.ty, depth + 1, d);
        };
        match t {
            Ty::Seq { root, adds, .. } | Ty::Choice { root, adds, .. } => {
                for c in root {
                    comp(c, d);
                }
                for a in adds {
                    match a {
                        Add::Comp(c) => comp(c, d),
                        Add::Group(_, cs) => cs.iter().for_each(|c| comp(c, d)),
                    }
                }
            }
            Ty::SeqOf { elem, elem_tag, .. } => {
                if let Some(t) = elem_tag {
                    d.push(format!("tag:element:{}:{}", t.kw, t.class));
                }
                tags(elem, depth + 1, d);
            }
            _ => {}
        }
    }
    if let Some(t) = &c.tag {
        d.push(format!("tag:type-assignment:{}:{}", t.kw, t.class));
    }
    tags(&c.ty, 0, &mut d);
    d.sort();
    d.dedup();
    d
}

pub fn run(cfg: &RunCfg) -> Report {
    let mut rep = Report::new(
        "C03",
        "[each also in one compilation together with modules of the other defaults, in two generation orders] exhaustive: module default {EXPLICIT, IMPLICIT, AUTOMATIC, none} × keyword {none, IMPLICIT, EXPLICIT} × class ×4 × position {type assignment, SEQUENCE component, SET component, CHOICE alternative, component of an anonymous nested type, SEQUENCE OF/SET OF element} × tagged kind {primitive, referenced SEQUENCE, referenced CHOICE, inline CHOICE, open type} (1440 points); automatic-tagging shapes (tag on no / each component × class × SEQUENCE/CHOICE × nested-only × after the marker) under every default; plus seeded random compositions with tags at every position. Observed: #[rasn(tag(..))] / automatic_tags via syn. Explicit marking on CHOICE/open-typed positions is not observable (rasn tags them explicitly itself) and is compared modulo that",
    );
    if let Some(r) = &cfg.replay {
        let c = case_from_replay(r).expect("bad replay");
        if r.get("case").unwrap_or(r).get("setting").is_some() {
            // the same type under every module default, in one compilation
            let all: Vec<Case> = ENVS.iter().map(|e| Case { env: e, ..c.clone() }).collect();
            judge_multi("c03", &all, &mut rep, &describe);
        } else {
            judge("c03", &[c], &mut rep, &describe);
        }
        return rep;
    }
    let mut cases: Vec<Case> = load_corpus("C03").iter().filter_map(case_from_replay).collect();
    cases.extend(exhaustive().0);
    cases.extend(automatic_shapes());
    cases.extend(random_cases(cfg, 0xC03, cfg.budget(800, 20000), || GenCfg { max_depth: 3, max_comps: 5, tags: true, groups: false, defaults: false }));
    rep.exhaustive = true;
    judge("c03", &cases, &mut rep, &describe);
    // the module default is the *own* module's, also when other modules are compiled in the same run
    let sample: Vec<Case> = cases.iter().step_by(if cfg.thorough { 3 } else { 9 }).cloned().collect();
    judge_multi("c03", &sample, &mut rep, &describe);
    rep
}

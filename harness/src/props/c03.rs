//! C03: tags and tagging mode under the module's tagging environment.
use super::structs::*;
use crate::gen_types::*;
use crate::report::{Report, RunCfg};
use crate::util::*;
use serde_json::json;

const CLASSES: [&str; 4] = ["context", "application", "private", "universal"];
const KWS: [&str; 3] = ["none", "implicit", "explicit"];
const POSITIONS: [&str; 6] = ["type-assignment", "sequence-component", "set-component", "choice-alternative", "nested-component", "of-element"];
const KINDS: [&str; 5] = ["primitive", "referenced-sequence", "referenced-choice", "inline-choice", "open-type"];

fn kind_ty(kind: &str) -> Ty {
    match kind {
        "primitive" => Ty::Prim("INTEGER"),
        "referenced-sequence" => Ty::Ref("Ref-Seq".into()),
        "referenced-choice" => Ty::Ref("Ref-Choice".into()),
        "inline-choice" => Ty::Choice {
            root: vec![
                Comp { name: "ca".into(), tag: None, ty: Ty::Prim("NULL"), opt: Opt::Req },
                Comp { name: "cb".into(), tag: None, ty: Ty::Prim("BOOLEAN"), opt: Opt::Req },
            ],
            marker: false,
            adds: vec![],
        },
        _ => Ty::Prim("ANY"),
    }
}

fn point(env: &'static str, kw: &'static str, class: &'static str, pos: &str, kind: &str, num: u64) -> Case {
    let tag = Some(Tag { class, num, kw });
    let ty = kind_ty(kind);
    let other = Comp { name: "other".into(), tag: None, ty: Ty::Prim("BOOLEAN"), opt: Opt::Req };
    let tagged = |ty: Ty| Comp { name: "tagged".into(), tag: tag.clone(), ty, opt: Opt::Req };
    match pos {
        "type-assignment" => Case { env, implied: false, tag, ty },
        "sequence-component" | "set-component" => Case {
            env,
            implied: false,
            tag: None,
            ty: Ty::Seq { set: pos == "set-component", root: vec![tagged(ty), other], marker: false, adds: vec![] },
        },
        "choice-alternative" => Case { env, implied: false, tag: None, ty: Ty::Choice { root: vec![tagged(ty), other], marker: false, adds: vec![] } },
        "nested-component" => Case {
            env,
            implied: false,
            tag: None,
            ty: Ty::Seq {
                set: false,
                root: vec![Comp {
                    name: "outer".into(),
                    tag: None,
                    ty: Ty::Seq { set: false, root: vec![tagged(ty), other.clone()], marker: false, adds: vec![] },
                    opt: Opt::Req,
                }],
                marker: false,
                adds: vec![],
            },
        },
        _ => Case { env, implied: false, tag: None, ty: Ty::SeqOf { set: num % 2 == 1, elem: Box::new(ty), elem_tag: tag } },
    }
}

pub fn exhaustive() -> (Vec<Case>, Vec<String>) {
    let mut cases = Vec::new();
    let mut labels = Vec::new();
    let mut n = 0u64;
    for env in ENVS {
        for kw in KWS {
            for class in CLASSES {
                for pos in POSITIONS {
                    for kind in KINDS {
                        n += 1;
                        cases.push(point(env, kw, class, pos, kind, n % 30));
                        labels.push(format!("{env}/{kw}/{class}/{pos}/{kind}"));
                        // every seventh point again with a tag number at or past a machine width (X.680 sets no upper limit)
                        if n % 7 == 3 {
                            let big = [255u64, 256, 65535, 65536, 2147483648, 4294967295, 4294967296, 4294967299, 1 << 40][(n / 7 % 9) as usize];
                            cases.push(point(env, kw, class, pos, kind, big));
                            labels.push(format!("{env}/{kw}/{class}/{pos}/{kind}/number-{big}"));
                        }
                    }
                }
            }
        }
    }
    (cases, labels)
}

/// automatic-tagging shapes: no component tagged / one tagged (each class) / tag only inside a nested type
fn automatic_shapes() -> Vec<Case> {
    let mut cases = Vec::new();
    let plain = |n: &str| Comp { name: n.into(), tag: None, ty: Ty::Prim("BOOLEAN"), opt: Opt::Req };
    for env in ENVS {
        for choice in [false, true] {
            for tagged_at in [None, Some(0usize), Some(1), Some(2)] {
                for class in CLASSES {
                    let mut comps = vec![plain("a"), plain("b"), plain("c")];
                    if let Some(i) = tagged_at {
                        comps[i].tag = Some(Tag { class, num: 7, kw: "none" });
                    } else if class != "context" {
                        continue;
                    }
                    let ty = if choice { Ty::Choice { root: comps.clone(), marker: false, adds: vec![] } } else { Ty::Seq { set: false, root: comps.clone(), marker: false, adds: vec![] } };
                    cases.push(Case { env, implied: false, tag: None, ty });
                    // tag only inside a nested anonymous type: the outer type has no tagged component of its own
                    if tagged_at.is_some() {
                        let inner = Ty::Seq { set: false, root: comps.clone(), marker: false, adds: vec![] };
                        cases.push(Case { env, implied: false, tag: None, ty: Ty::Seq { set: false, root: vec![plain("x"), Comp { name: "inner".into(), tag: None, ty: inner, opt: Opt::Req }], marker: false, adds: vec![] } });
                        // tagged component after the extension marker
                        cases.push(Case { env, implied: false, tag: None, ty: Ty::Seq { set: false, root: vec![plain("x")], marker: true, adds: comps.iter().cloned().map(Add::Comp).collect() } });
                        // tagged component inside a version group: it is a component of the type all the same (X.680 25.3 speaks of
                        // the ComponentTypeLists, which the groups are part of)
                        if !choice {
                            cases.push(Case { env, implied: false, tag: None, ty: Ty::Seq { set: false, root: vec![plain("x")], marker: true, adds: vec![Add::Group(None, comps.clone())] } });
                            cases.push(Case { env, implied: false, tag: None, ty: Ty::Seq { set: false, root: vec![plain("x"), plain("y")], marker: true, adds: vec![Add::Comp(plain("z")), Add::Group(Some(2), comps.clone())] } });
                        }
                    }
                }
            }
        }
    }
    cases
}

fn describe(c: &Case) -> Vec<String> {
    let mut d = vec![format!("default:{}", c.env)];
    fn tags(t: &Ty, depth: usize, d: &mut Vec<String>) {
        let mut comp = |c: &Comp, d: &mut Vec<String>| {
            if let Some(t) = &c.tag {
                d.push(format!("tag:depth{}:{}:{}", depth + 1, t.kw, t.class));
            }
            tags(&c.ty, depth + 1, d);
        };
        match t {
            Ty::Seq { root, adds, .. } | Ty::Choice { root, adds, .. } => {
                for c in root {
                    comp(c, d);
                }
                for a in adds {
                    match a {
                        Add::Comp(c) => comp(c, d),
                        Add::Group(_, cs) => cs.iter().for_each(|c| comp(c, d)),
                    }
                }
            }
            Ty::SeqOf { elem, elem_tag, .. } => {
                if let Some(t) = elem_tag {
                    d.push(format!("tag:element:{}:{}", t.kw, t.class));
                }
                tags(elem, depth + 1, d);
            }
            _ => {}
        }
    }
    if let Some(t) = &c.tag {
        d.push(format!("tag:type-assignment:{}:{}", t.kw, t.class));
    }
    tags(&c.ty, 0, &mut d);
    d.sort();
    d.dedup();
    d
}

pub fn run(cfg: &RunCfg) -> Report {
    let mut rep = Report::new(
        "C03",
        "[every type with a plain INTEGER component also with that component written as a fixed-type class field reference] [a sample also as instances of parameterized types] [each also in one compilation together with modules of the other defaults, in two generation orders] exhaustive: module default {EXPLICIT, IMPLICIT, AUTOMATIC, none} × keyword {none, IMPLICIT, EXPLICIT} × class ×4 × position {type assignment, SEQUENCE component, SET component, CHOICE alternative, component of an anonymous nested type, SEQUENCE OF/SET OF element} × tagged kind {primitive, referenced SEQUENCE, referenced CHOICE, inline CHOICE, open type} (1440 points); automatic-tagging shapes (tag on no / each component × class × SEQUENCE/CHOICE × nested-only × after the marker) under every default; plus seeded random compositions with tags at every position. Observed: #[rasn(tag(..))] / automatic_tags via syn. Explicit marking on CHOICE/open-typed positions is not observable (rasn tags them explicitly itself) and is compared modulo that",
    );
    if let Some(r) = &cfg.replay {
        let c = case_from_replay(r).expect("bad replay");
        if r.get("case").unwrap_or(r).get("tagged_template").is_some() {
            tagged_templates(&mut rep, Some(r.get("case").unwrap_or(r)));
            return rep;
        }
        if let Some(cm) = r.get("case").unwrap_or(r).get("cross_module").and_then(|x| x.as_array()) {
            cross_module(&mut rep, Some((cm[0].as_str().unwrap_or(""), cm[1].as_str().unwrap_or(""))));
            return rep;
        }
        let setting = r.get("case").unwrap_or(r).get("setting").and_then(|x| x.as_str()).unwrap_or("").to_string();
        if setting.starts_with("written as the body of a parameterized type") {
            judge_templates("c03", &[c], &mut rep, &describe);
        } else if setting == CLASS_FIELD_SETTING || setting == CLASS_FIELD_SETTING_LAST {
            judge_class_field_at("c03", &[c], &mut rep, &describe, setting == CLASS_FIELD_SETTING_LAST);
        } else if !setting.is_empty() {
            // the same type under every module default, in one compilation
            let all: Vec<Case> = ENVS.iter().map(|e| Case { env: e, ..c.clone() }).collect();
            judge_multi("c03", &all, &mut rep, &describe);
        } else {
            judge("c03", &[c], &mut rep, &describe);
        }
        return rep;
    }
    let mut cases: Vec<Case> = load_corpus("C03").iter().filter_map(case_from_replay).collect();
    cases.extend(exhaustive().0);
    cases.extend(automatic_shapes());
    cases.extend(random_cases(cfg, 0xC03, cfg.budget(800, 20000), || GenCfg { max_depth: 3, max_comps: 5, tags: true, groups: false, defaults: false }));
    rep.exhaustive = true;
    judge("c03", &cases, &mut rep, &describe);
    // the module default is the *own* module's, also when other modules are compiled in the same run
    let sample: Vec<Case> = cases.iter().step_by(if cfg.thorough { 3 } else { 9 }).cloned().collect();
    judge_multi("c03", &sample, &mut rep, &describe);
    // ... and when the type is reached through an instance of a parameterized type
    judge_templates("c03", &sample, &mut rep, &describe);
    // ... and when the definition mentions a class field (the linker rebuilds such definitions member by member)
    judge_class_field("c03", &cases, &mut rep, &describe);
    cross_module(&mut rep, None);
    tagged_templates(&mut rep, None);
    rep
}

/// Tags on parameterized types and on their instances: `W {P} ::= [T] body`, `I ::= [I] W { arg }`. X.683 substitutes the
/// instance into the template, so the instance carries its own tag outermost *and* the template's tag. Judged: the tag
/// attribute of the instance's item (class and number). A tagged template is a listed finding (its tag is lost in the
/// instance); the defective behaviour it lists is "the instance keeps exactly its own tag".
fn tagged_templates(rep: &mut Report, only: Option<&serde_json::Value>) {
    let envs = ["EXPLICIT TAGS", "IMPLICIT TAGS", "AUTOMATIC TAGS", ""];
    let ttags = ["", "[APPLICATION 2] ", "[3] ", "[PRIVATE 4] IMPLICIT ", "[5] EXPLICIT "];
    let itags = ["", "[PRIVATE 7] ", "[1] ", "[APPLICATION 9] EXPLICIT "];
    let bodies = ["SEQUENCE { a P, b BOOLEAN }", "SET { a P }", "SEQUENCE OF P", "INTEGER (0..7)", "CHOICE { a P, b NULL }"];
    let cn = |t: &str| -> Option<(String, String)> {
        // "[CLASS n] KW " -> (class, n)
        let inner = t.trim().strip_prefix('[')?.split(']').next()?.to_string();
        let parts: Vec<&str> = inner.split_whitespace().collect();
        match parts.as_slice() {
            [n] => Some(("context".into(), n.to_string())),
            [c, n] => Some((c.to_lowercase(), n.to_string())),
            _ => None,
        }
    };
    let mut k = 0usize;
    for env in envs {
        for tt in ttags {
            for it in itags {
                for body in bodies {
                    k += 1;
                    let case = json!({"tagged_template": [env, tt, it, body]});
                    if let Some(o) = only {
                        if o.get("tagged_template") != case.get("tagged_template") {
                            continue;
                        }
                    }
                    // names sorting both ways relative to the template
                    let (w, i) = if (k / 2 + k / 6 + k) % 2 == 0 { (format!("Wrap{k}"), format!("Zinst{k}")) } else { (format!("Wrap{k}"), format!("Ainst{k}")) };
                    let src = format!("Tpl-Mod DEFINITIONS {env} ::= BEGIN\n{w} {{ P }} ::= {tt}{body}\n{i} ::= {it}{w} {{ BOOLEAN }}\nEND\n");
                    rep.evaluations += 1;
                    rep.count("tagged-template");
                    let want_own = cn(it);
                    let want_tpl = cn(tt);
                    match compile_rasn(&[src.clone()]) {
                        Outcome::Ok { generated, .. } => match crate::proj::project(&generated) {
                            Ok(ms) => {
                                let Some(item) = ms.iter().find_map(|m| m.item(&i)) else {
                                    rep.count("tagged-template:instance-not-generated(not judged)");
                                    continue;
                                };
                                let seen: Option<(String, String)> = item.attrs.get("tag").map(|t| {
                                    let t = t.trim_start_matches("explicit(").trim_end_matches(')');
                                    let parts: Vec<&str> = t.split(',').map(|x| x.trim()).collect();
                                    match parts.as_slice() {
                                        [n] => ("context".to_string(), n.to_string()),
                                        [c, n] => (c.to_string(), n.to_string()),
                                        _ => ("?".to_string(), t.to_string()),
                                    }
                                });
                                let case = json!({"tagged_template": [env, tt, it, body], "source": src, "instance_tag_seen": format!("{seen:?}")});
                                match (&want_tpl, &want_own) {
                                    (None, own) => {
                                        if seen != *own {
                                            rep.unsat("", false, json!({"why": format!("instance {i}: tag {seen:?}, written {own:?}"), "case": case}));
                                        }
                                    }
                                    (Some(t), None) => {
                                        if seen.as_ref() != Some(t) {
                                            rep.unsat("C03_template_tag_lost_in_instances", seen.is_none(), json!({"why": format!("instance {i}: the template's tag {t:?} is not applied (seen {seen:?})"), "case": case}));
                                        }
                                    }
                                    (Some(t), Some(o)) => {
                                        // one attribute cannot carry both tags: the listed behaviour keeps the instance's own tag
                                        rep.unsat("C03_template_tag_lost_in_instances", seen.as_ref() == Some(o), json!({"why": format!("instance {i}: written with {o:?} around a template tagged {t:?}, seen {seen:?}"), "case": case}));
                                    }
                                }
                            }
                            Err(e) => rep.harness_errors.push(format!("projection failed: {e}")),
                        },
                        Outcome::Err(_) => rep.count("tagged-template:err(not judged)"),
                        Outcome::Panic(p) => rep.unsat("", false, json!({"why": format!("panic: {p}"), "case": case})),
                    }
                }
            }
        }
    }
}

/// Components that come from another module (copied by COMPONENTS OF, or as the body of an imported parameterized
/// type) keep the tagging of the module they are written in; the including module's default applies to its own.
fn cross_module(rep: &mut Report, only: Option<(&str, &str)>) {
    let envs = [("explicit", "EXPLICIT TAGS"), ("implicit", "IMPLICIT TAGS"), ("automatic", "AUTOMATIC TAGS")];
    for (ln, lh) in envs {
        for (un, uh) in envs {
            if only.is_some_and(|(a, b)| a != ln || b != un) {
                continue;
            }
            for lib_first in [true, false] {
                let (lm, um) = if lib_first { ("Aa-Lib", "Zz-User") } else { ("Zz-Lib", "Aa-User") };
                let lib = format!("{lm} DEFINITIONS {lh} ::= BEGIN\nLib ::= SEQUENCE {{ a [3] INTEGER, b [4] BOOLEAN }}\nLPar {{ T }} ::= SEQUENCE {{ p [5] INTEGER, q [6] SEQUENCE {{ r [0] NULL }}, t T }}\nEND\n");
                let user = format!("{um} DEFINITIONS {uh} ::= BEGIN\nIMPORTS Lib, LPar FROM {lm};\nU1 ::= SEQUENCE {{ own [1] NULL, COMPONENTS OF Lib }}\nU2 ::= LPar {{ BOOLEAN }}\nU3 ::= SEQUENCE {{ mine [2] NULL }}\nEND\n");
                rep.evaluations += 1;
                rep.count("cross-module-copy");
                let case = json!({"cross_module": [ln, un], "sources": [lib, user]});
                match compile_rasn(&[lib.clone(), user.clone()]) {
                    Outcome::Ok { generated, .. } => match crate::proj::project(&generated) {
                        Ok(ms) => {
                            let want_mod = um.to_lowercase().replace('-', "_");
                            let Some(m) = ms.iter().find(|m| m.name == want_mod) else {
                                rep.harness_errors.push(format!("module {want_mod} missing"));
                                continue;
                            };
                            let explicit_of = |item: &str, field: &str| -> Option<bool> {
                                match m.item(item).map(|i| &i.kind) {
                                    Some(crate::proj::ItemKind::Struct { fields, .. }) => fields.iter().find(|f| f.name == field).and_then(|f| f.attrs.get("tag")).map(|t| t.contains("explicit(")),
                                    _ => None,
                                }
                            };
                            let checks = [("U1", "own", un), ("U1", "a", ln), ("U1", "b", ln), ("U2", "p", ln), ("U2", "q", ln), ("U3", "mine", un)];
                            for (item, field, env) in checks {
                                match explicit_of(item, field) {
                                    Some(e) => {
                                        if e != (env == "explicit") {
                                            rep.unsat("", false, json!({"why": format!("{item}.{field} is written in a module with {env} tagging (library: {ln}, including module: {un}) but its tag is {}", if e { "explicit" } else { "implicit" }), "case": case}));
                                        }
                                    }
                                    None => rep.unsat("", false, json!({"why": format!("{item}.{field}: no tag attribute found"), "case": case})),
                                }
                            }
                        }
                        Err(e) => rep.harness_errors.push(format!("projection failed: {e}")),
                    },
                    Outcome::Err(e) => rep.sample(json!({"compile_err": e, "case": case})),
                    Outcome::Panic(p) => rep.unsat("", false, json!({"why": format!("panic: {p}"), "case": case})),
                }
            }
        }
    }
}

//! C11: the result is a deterministic function of the set of definitions.
use crate::modset::*;
use crate::pipe_obs::*;
use crate::report::{Report, RunCfg};
use crate::util::*;
use serde_json::{json, Value};
use std::collections::BTreeSet;

/// canonical result of one compilation: bindings bytes (or the error) and the multiset of warnings
#[derive(Clone, PartialEq, Debug)]
pub struct Canon {
    pub generated: String,
    pub warnings: Vec<String>,
}

pub fn canon(o: &Outcome) -> Canon {
    match o {
        Outcome::Ok { generated, warnings } => {
            let mut w = warnings.clone();
            w.sort();
            Canon { generated: generated.clone(), warnings: w }
        }
        Outcome::Err(e) => Canon { generated: format!("<Err> {e}"), warnings: vec![] },
        Outcome::Panic(p) => Canon { generated: format!("<panic> {p}"), warnings: vec![] },
    }
}

fn compile_big_stack(sources: Vec<String>) -> Outcome {
    std::thread::Builder::new()
        .stack_size(256 << 20)
        .spawn(move || compile_rasn(&sources))
        .unwrap()
        .join()
        .unwrap_or_else(|_| Outcome::Panic("thread died".into()))
}

fn first_diff(a: &Canon, b: &Canon) -> String {
    if a.generated != b.generated {
        let k = a.generated.bytes().zip(b.generated.bytes()).take_while(|(x, y)| x == y).count();
        let lo = k.saturating_sub(60);
        let cut = |s: &str| -> String { s.chars().skip(s[..lo.min(s.len())].chars().count()).take(160).collect() };
        // byte offset → char-safe window
        let safe = |s: &str| -> String {
            let mut lo2 = lo.min(s.len());
            while !s.is_char_boundary(lo2) {
                lo2 -= 1;
            }
            let _ = cut;
            s[lo2..].chars().take(160).collect()
        };
        format!("bindings differ at byte {k}: `{}` vs `{}`", safe(&a.generated), safe(&b.generated))
    } else {
        let sa: BTreeSet<&String> = a.warnings.iter().collect();
        let sb: BTreeSet<&String> = b.warnings.iter().collect();
        format!("warnings differ: only first {:?}; only second {:?}", sa.difference(&sb).take(2).collect::<Vec<_>>(), sb.difference(&sa).take(2).collect::<Vec<_>>())
    }
}

pub fn set_to_json(sources: &[Vec<M>]) -> Value {
    json!(sources.iter().map(|ms| ms.iter().map(|m| m.to_json()).collect::<Vec<_>>()).collect::<Vec<_>>())
}
pub fn set_from_json(v: &Value) -> Vec<Vec<M>> {
    v.as_array().map(|a| a.iter().map(|s| s.as_array().map(|ms| ms.iter().map(M::from_json).collect()).unwrap_or_default()).collect()).unwrap_or_default()
}

fn shuffle<T>(rng: &mut Rng, v: &mut [T]) {
    for i in (1..v.len()).rev() {
        v.swap(i, rng.below(i + 1));
    }
}

fn all_perms(n: usize) -> Vec<Vec<usize>> {
    fn go(cur: &mut Vec<usize>, used: &mut Vec<bool>, n: usize, out: &mut Vec<Vec<usize>>) {
        if cur.len() == n {
            out.push(cur.clone());
            return;
        }
        for i in 0..n {
            if !used[i] {
                used[i] = true;
                cur.push(i);
                go(cur, used, n, out);
                cur.pop();
                used[i] = false;
            }
        }
    }
    let mut out = Vec::new();
    go(&mut vec![], &mut vec![false; n], n, &mut out);
    out
}

/// permuted variants of a set: (label, sources)
pub fn variants(rng: &mut Rng, base: &[Vec<M>], k: usize) -> Vec<(String, Vec<Vec<M>>)> {
    let mut out = Vec::new();
    // reversal at every level
    let mut r: Vec<Vec<M>> = base.to_vec();
    r.reverse();
    for s in r.iter_mut() {
        s.reverse();
        for m in s.iter_mut() {
            m.defs.reverse();
        }
    }
    out.push(("reversal of sources, modules and assignments".to_string(), r));
    for i in 0..k {
        let mut v: Vec<Vec<M>> = base.to_vec();
        match i % 4 {
            0 => {
                for s in v.iter_mut() {
                    for m in s.iter_mut() {
                        shuffle(rng, &mut m.defs);
                    }
                }
                out.push(("assignments permuted inside every module".into(), v));
            }
            1 => {
                for s in v.iter_mut() {
                    shuffle(rng, s);
                }
                out.push(("modules permuted inside every source".into(), v));
            }
            2 => {
                shuffle(rng, &mut v);
                out.push(("sources permuted".into(), v));
            }
            _ => {
                // regroup: all modules shuffled and dealt into a random number of sources
                let mut all: Vec<M> = v.into_iter().flatten().collect();
                shuffle(rng, &mut all);
                for m in all.iter_mut() {
                    shuffle(rng, &mut m.defs);
                }
                let n_src = 1 + rng.below(all.len());
                let mut srcs: Vec<Vec<M>> = vec![vec![]; n_src];
                for (q, m) in all.into_iter().enumerate() {
                    srcs[q % n_src].push(m);
                }
                out.push(("modules regrouped into other sources, everything permuted".into(), srcs.into_iter().filter(|s| !s.is_empty()).collect()));
            }
        }
    }
    // every permutation for small inputs
    if base.len() > 1 && base.len() <= 5 {
        for p in all_perms(base.len()) {
            out.push((format!("sources in order {p:?}"), p.iter().map(|i| base[*i].clone()).collect()));
        }
    }
    if base.len() == 1 && base[0].len() > 1 && base[0].len() <= 5 {
        for p in all_perms(base[0].len()) {
            out.push((format!("modules in order {p:?}"), vec![p.iter().map(|i| base[0][*i].clone()).collect()]));
        }
    }
    if base.len() == 1 && base[0].len() == 1 && base[0][0].defs.len() <= 5 {
        for p in all_perms(base[0][0].defs.len()) {
            let mut m = base[0][0].clone();
            m.defs = p.iter().map(|i| base[0][0].defs[*i].clone()).collect();
            out.push((format!("assignments in order {p:?}"), vec![vec![m]]));
        }
    }
    out
}

pub fn gen_sets(cfg: &RunCfg) -> Vec<Vec<Vec<M>>> {
    let mut rng = Rng::new(cfg.seed ^ 0xC11);
    let n = cfg.budget(60, 600);
    let mut sets = Vec::new();
    for set in 0..n {
        let n_mod = 1 + rng.below(5);
        let mut mods = Vec::new();
        for m in 0..n_mod {
            let n_assign = if set % 4 == 0 { 1 + rng.below(5) } else { 1 + rng.below(25) };
            let mut g = Gen { rng: &mut rng, info_objects: true };
            mods.push(g.module(&format!("Mod{set}x{m}"), &format!("{set}x{m}"), n_assign));
        }
        link_imports(&mut rng, &mut mods, 2, &format!("{set}"));
        // COMPONENTS OF chains (link order matters for them)
        if rng.chance(1, 3) {
            let mi = rng.below(n_mod);
            let u = format!("{set}x{mi}");
            for (name, text) in [
                (format!("CoA{u}e"), format!("CoA{u}e ::= SEQUENCE {{ base-count INTEGER }}")),
                (format!("CoB{u}e"), format!("CoB{u}e ::= SEQUENCE {{ COMPONENTS OF CoA{u}e, mid-flag BOOLEAN }}")),
                (format!("CoC{u}e"), format!("CoC{u}e ::= SEQUENCE {{ COMPONENTS OF CoB{u}e, top-name UTF8String }}")),
            ] {
                let refs = if name.starts_with("CoB") { vec![format!("CoA{u}e")] } else if name.starts_with("CoC") { vec![format!("CoB{u}e")] } else { vec![] };
                mods[mi].defs.push(D { name, kind: Kind::Type, shape: "Co".into(), text, refs, fault: None });
            }
            let len = mods[mi].defs.len();
            // scatter them
            for q in 0..3 {
                let a = len - 1 - q;
                let b = rng.below(len);
                mods[mi].defs.swap(a, b);
            }
        }
        // the same name in two modules (finding witness; rare)
        if n_mod > 1 && rng.chance(1, 15) {
            let cands: Vec<D> = mods[0].defs.iter().filter(|d| d.refs.is_empty() && d.kind == Kind::Type && !d.no_output()).cloned().collect();
            if !cands.is_empty() {
                let d = rng.pick(&cands).clone();
                mods[1].defs.push(d);
            }
        }
        // split into sources
        let n_src = 1 + rng.below(n_mod);
        let mut srcs: Vec<Vec<M>> = vec![vec![]; n_src];
        for (q, m) in mods.into_iter().enumerate() {
            srcs[q % n_src].push(m);
        }
        sets.push(srcs.into_iter().filter(|s| !s.is_empty()).collect());
    }
    sets
}

fn has_collision(set: &[Vec<M>]) -> bool {
    let mut seen = BTreeSet::new();
    set.iter().flatten().flat_map(|m| m.defs.iter()).any(|d| !seen.insert(d.name.clone()))
}

const KEYWORDS: [&str; 62] = [
    "INTEGER", "BOOLEAN", "SEQUENCE", "SET", "OF", "CHOICE", "ENUMERATED", "OCTET", "STRING", "BIT", "NULL", "OBJECT", "IDENTIFIER", "REAL",
    "UTF8String", "IA5String", "PrintableString", "NumericString", "VisibleString", "BMPString", "UniversalString", "TeletexString", "T61String",
    "VideotexString", "GraphicString", "GeneralString", "ISO646String", "UTCTime", "GeneralizedTime", "ObjectDescriptor", "OPTIONAL", "DEFAULT",
    "BEGIN", "END", "DEFINITIONS", "IMPLICIT", "EXPLICIT", "AUTOMATIC", "TAGS", "IMPORTS", "EXPORTS", "FROM", "CLASS", "SIZE", "EXTENSIBILITY",
    "IMPLIED", "APPLICATION", "PRIVATE", "UNIVERSAL", "ANY", "DEFINED", "BY", "EXTERNAL", "EMBEDDED", "PDV", "CHARACTER", "RELATIVE-OID",
    "TYPE-IDENTIFIER", "ABSTRACT-SYNTAX", "MACRO", "ALL", "TRUE",
];

/// over-approximation of the names a real-world source defines: depth-0 words shortly before a depth-0 `::=`
fn candidate_names(text: &str) -> BTreeSet<String> {
    let toks = crate::asn_text::tokenize(text);
    let mut depth = 0i32;
    let mut d0: Vec<(usize, &crate::asn_text::Tok)> = Vec::new();
    for t in &toks {
        let s = &text[t.start..t.end];
        match s {
            "{" | "(" | "[" | "[[" => depth += 1,
            "}" | ")" | "]" | "]]" => depth -= 1,
            _ => {}
        }
        if depth <= 0 || s == "::=" {
            d0.push((depth.max(0) as usize, t));
        }
    }
    let mut out = BTreeSet::new();
    for (i, (_, t)) in d0.iter().enumerate() {
        if &text[t.start..t.end] == "::=" {
            for (_, p) in d0[i.saturating_sub(5)..i].iter() {
                let w = &text[p.start..p.end];
                if p.kind == "word" && !KEYWORDS.contains(&w) {
                    out.insert(w.to_string());
                }
            }
        }
    }
    out
}

fn real_world(cfg: &RunCfg, rep: &mut Report) {
    let dir = std::path::Path::new("/repo/rasn-compiler-tests/tests/modules");
    let mut files: Vec<std::path::PathBuf> = std::fs::read_dir(dir).map(|d| d.filter_map(|e| e.ok().map(|e| e.path())).collect()).unwrap_or_default();
    files.sort();
    if files.is_empty() {
        rep.count("real-world:none-found");
        return;
    }
    let mut rng = Rng::new(cfg.seed ^ 0x4EA1);
    let take = cfg.budget(90, 900).min(files.len());
    let mut idx: Vec<usize> = (0..files.len()).collect();
    shuffle(&mut rng, &mut idx);
    idx.truncate(take);
    idx.sort();
    let texts: Vec<(String, String)> = idx
        .iter()
        .filter_map(|i| std::fs::read_to_string(&files[*i]).ok().map(|t| (files[*i].file_name().unwrap().to_string_lossy().to_string(), t)))
        .collect();
    // (1) every file alone: twice in a row, then after all the others (history)
    let first: Vec<Canon> = texts.iter().map(|(_, t)| canon(&compile_big_stack(vec![t.clone()]))).collect();
    let mut compiling = 0;
    for (k, (name, t)) in texts.iter().enumerate() {
        rep.evaluations += 1;
        if !first[k].generated.starts_with('<') {
            compiling += 1;
        }
        let again = canon(&compile_big_stack(vec![t.clone()]));
        if again != first[k] {
            rep.unsat("", false, json!({"why": format!("real-world module {name}: a repeated compilation gives a different result: {}", first_diff(&first[k], &again)), "case": {"kind": "file-repeat", "files": [name]}}));
        }
    }
    rep.count(&format!("real-world:files:{}", texts.len()));
    rep.count(&format!("real-world:files-that-compile:{compiling}"));
    // (2) concurrent: 1..16 threads over the same inputs
    for n_threads in [2usize, 7, 16] {
        let chunks: Vec<Vec<(usize, String)>> = (0..n_threads).map(|t| texts.iter().enumerate().filter(|(k, _)| (k + t) % 3 != 2).map(|(k, (_, s))| (k, s.clone())).collect()).collect();
        let handles: Vec<_> = chunks
            .into_iter()
            .map(|chunk| {
                std::thread::Builder::new()
                    .stack_size(256 << 20)
                    .spawn(move || chunk.into_iter().rev().map(|(k, s)| (k, canon(&compile_rasn(&[s])))).collect::<Vec<_>>())
                    .unwrap()
            })
            .collect();
        for h in handles {
            if let Ok(results) = h.join() {
                for (k, c) in results {
                    rep.evaluations += 1;
                    if c != first[k] {
                        rep.unsat("", false, json!({"why": format!("real-world module {}: compiled on one of {n_threads} concurrent threads gives a different result: {}", texts[k].0, first_diff(&first[k], &c)), "case": {"kind": "file-threads", "files": [texts[k].0]}}));
                    }
                }
            }
        }
        rep.count(&format!("real-world:threads:{n_threads}"));
    }
    // (3) groups of files: order of sources / order of modules inside one source
    let n_groups = cfg.budget(40, 400);
    for _ in 0..n_groups {
        let g = 2 + rng.below(4);
        let mut pick: Vec<usize> = Vec::new();
        while pick.len() < g.min(texts.len()) {
            let k = rng.below(texts.len());
            // only modules that compile on their own
            if !pick.contains(&k) && !first[k].generated.starts_with('<') {
                pick.push(k);
            }
            if pick.len() < g && compiling < g {
                break;
            }
        }
        if pick.len() < 2 {
            continue;
        }
        let names: Vec<BTreeSet<String>> = pick.iter().map(|k| candidate_names(&texts[*k].1)).collect();
        let mut collision = false;
        for a in 0..names.len() {
            for b in a + 1..names.len() {
                if names[a].intersection(&names[b]).next().is_some() {
                    collision = true;
                }
            }
        }
        let srcs: Vec<String> = pick.iter().map(|k| texts[*k].1.clone()).collect();
        let base = canon(&compile_big_stack(srcs.clone()));
        let mut orders: Vec<Vec<usize>> = if pick.len() <= 3 { all_perms(pick.len()) } else { vec![] };
        let mut rev: Vec<usize> = (0..pick.len()).collect();
        rev.reverse();
        orders.push(rev);
        for _ in 0..2 {
            let mut p: Vec<usize> = (0..pick.len()).collect();
            shuffle(&mut rng, &mut p);
            orders.push(p);
        }
        for p in orders {
            for one_source in [false, true] {
                rep.evaluations += 1;
                let permuted: Vec<String> = p.iter().map(|i| srcs[*i].clone()).collect();
                let input = if one_source { vec![permuted.join("\n")] } else { permuted };
                let c = canon(&compile_big_stack(input));
                rep.count(if collision { "real-world:group-with-colliding-names" } else { "real-world:group-permutation" });
                if c != base {
                    let files: Vec<&String> = pick.iter().map(|k| &texts[*k].0).collect();
                    let why = format!("real-world modules {files:?} in order {p:?}{}: {}", if one_source { " (one source)" } else { "" }, first_diff(&base, &c));
                    let case = json!({"kind": "file-group", "files": files, "order": p, "one_source": one_source});
                    if collision {
                        rep.unsat("C11_bare_name_collision", true, json!({"why": why, "case": case}));
                    } else {
                        rep.unsat("", false, json!({"why": why, "case": case}));
                    }
                }
            }
        }
    }
}

pub fn run(cfg: &RunCfg) -> Report {
    let mut rep = Report::new(
        "C11",
        "[plus: permitted alphabets of seven string kinds, a parameterized type with two object-set parameters and generated sets with information objects, with opaque_open_types on / off: 12 repetitions and 8 threads in the long-lived process against the result of a fresh child process] generated module sets (1..5 modules, 1..25 assignments each, IMPORTS of types and values between them incl. values whose types are not imported, COMPONENTS OF chains, several sources) compiled in the given order, reversed, and under k random permutations of assignments / modules / sources / regroupings (every permutation when a level has <= 5 units); each set also repeated, after other compilations, and on 2/7/16 concurrent threads; the real-world modules of rasn-compiler-tests/tests/modules compiled twice, concurrently, and in groups of 2..5 under permutations of source order and of module order inside one source. Oracle: bindings bytes and sorted warnings identical (rustfmt unavailable). Model tie: emitted sequence equals the skeleton's for the base and one permuted order",
    );
    if let Some(r) = &cfg.replay {
        let r = r.get("case").unwrap_or(r);
        if r["kind"].as_str().map(|k| k.starts_with("file")).unwrap_or(false) {
            replay_files(r, &mut rep);
            return rep;
        }
        if let Some(l) = r["state_input"].as_str() {
            process_state(cfg, &mut rep, Some((l, r["opaque_open_types"].as_bool().unwrap_or(true))));
            return rep;
        }
    }
    let sets: Vec<Vec<Vec<M>>> = if let Some(r) = &cfg.replay {
        let r = r.get("case").unwrap_or(r);
        vec![set_from_json(&r["set"])]
    } else {
        let mut v: Vec<Vec<Vec<M>>> = load_corpus("C11").iter().map(|c| set_from_json(&c["set"])).collect();
        v.extend(gen_sets(cfg));
        v
    };
    let mut rng = Rng::new(cfg.seed ^ 0x9E11);
    let k = if cfg.thorough { 8 } else { 4 };
    let mut reqs = Vec::new();
    let mut tie: Vec<(usize, Vec<Vec<M>>, Obs)> = Vec::new();
    let mut bases: Vec<Canon> = Vec::new();
    for (si, set) in sets.iter().enumerate() {
        let collision = has_collision(set);
        let base_out = compile_rasn(&render(set));
        let base = canon(&base_out);
        bases.push(base.clone());
        rep.count(&format!("sources:{}", set.len()));
        rep.count(&format!("modules:{}", set.iter().map(|s| s.len()).sum::<usize>()));
        rep.count(match &base_out {
            Outcome::Ok { warnings, .. } if warnings.is_empty() => "base:ok",
            Outcome::Ok { .. } => "base:ok-with-warnings",
            Outcome::Err(_) => "base:err",
            Outcome::Panic(_) => "base:panic",
        });
        rep.distinct.insert(format!("{}", base.generated.len()));
        let vs = variants(&mut rng, set, k);
        let mut tied = false;
        for (label, v) in vs {
            rep.evaluations += 1;
            rep.count(&format!("variant:{}", label.split(' ').next().unwrap_or("")));
            let out = compile_rasn(&render(&v));
            let c = canon(&out);
            if c != base {
                let why = format!("{label}: {}", first_diff(&base, &c));
                let case = json!({"set": set_to_json(set), "variant": set_to_json(&v)});
                if collision {
                    rep.unsat("C11_bare_name_collision", true, json!({"why": why, "case": case}));
                } else {
                    rep.unsat("", false, json!({"why": why, "case": case}));
                }
            }
            if !tied && !collision {
                tied = true;
                let o = observe_outcome(out);
                let flat = flatten(&v);
                let cls = classify(&flat, &o.warnings);
                reqs.push(pipe_request(&flat, &cls));
                tie.push((si, v.clone(), o));
            }
        }
        // repetition / history: the same input again, after everything compiled so far
        rep.evaluations += 1;
        let again = canon(&compile_rasn(&render(set)));
        if again != base {
            rep.unsat("", false, json!({"why": format!("the same input compiled again (after other compilations) gives a different result: {}", first_diff(&base, &again)), "case": {"set": set_to_json(set), "variant": set_to_json(set)}}));
        }
    }
    // concurrency over the generated sets
    if cfg.replay.is_none() {
        for n_threads in [3usize, 16] {
            let rendered: Vec<Vec<String>> = sets.iter().map(|s| render(s)).collect();
            let handles: Vec<_> = (0..n_threads)
                .map(|t| {
                    let mine: Vec<(usize, Vec<String>)> = rendered.iter().enumerate().filter(|(i, _)| (i + t) % 2 == 0).map(|(i, s)| (i, s.clone())).collect();
                    std::thread::spawn(move || mine.into_iter().map(|(i, s)| (i, canon(&compile_rasn(&s)))).collect::<Vec<_>>())
                })
                .collect();
            for h in handles {
                if let Ok(rs) = h.join() {
                    for (i, c) in rs {
                        rep.evaluations += 1;
                        if c != bases[i] {
                            rep.unsat("", false, json!({"why": format!("compiled on one of {n_threads} concurrent threads: {}", first_diff(&bases[i], &c)), "case": {"set": set_to_json(&sets[i]), "variant": set_to_json(&sets[i])}}));
                        }
                    }
                }
            }
            rep.count(&format!("threads:{n_threads}"));
        }
    }
    match run_driver(&reqs) {
        Ok(ans) => {
            for (q, a) in ans.iter().enumerate() {
                let (si, v, o) = &tie[q];
                if !matches!(o.outcome, Outcome::Ok { .. }) || o.parse_error.is_some() {
                    continue;
                }
                match parse_events(a) {
                    Ok(ev) => {
                        let flat = flatten(v);
                        if let Some(d) = compare(&ev, &flat, o, v) {
                            rep.disagree(json!({"difference": d, "case": {"set": set_to_json(&sets[*si]), "variant": set_to_json(v)}}));
                        }
                    }
                    Err(e) => rep.harness_errors.push(e),
                }
            }
        }
        Err(e) => rep.harness_errors.push(e),
    }
    if cfg.replay.is_none() {
        real_world(cfg, &mut rep);
        process_state(cfg, &mut rep, None);
    }
    rep
}

/// Notation whose treatment involves tables, caches or maps inside the compiler: permitted alphabets of every
/// string kind with closed and open bounds, parameterized types with several object-set parameters, generated
/// module sets with information objects — under the default configuration and with opaque_open_types off.
fn state_sensitive_inputs(cfg: &RunCfg) -> Vec<(String, Vec<String>)> {
    let mut out: Vec<(String, Vec<String>)> = Vec::new();
    for kind in ["VisibleString", "IA5String", "BMPString", "UniversalString", "PrintableString", "NumericString", "UTF8String"] {
        let (lo, hi) = if kind == "NumericString" { ("1", "8") } else { ("a", "z") };
        out.push((
            format!("alphabet:{kind}"),
            vec![format!("Al-Mod DEFINITIONS AUTOMATIC TAGS ::= BEGIN\nA ::= {kind} (FROM (\"{lo}\"..\"{hi}\"))\nB ::= {kind} (FROM (MIN..\"{hi}\"))\nC ::= {kind} (FROM (\"{lo}\"..MAX))\nD ::= SEQUENCE {{ d {kind} (FROM (\"{lo}{hi}\")) (SIZE (1..4)) }}\nEND\n")],
        ));
    }
    out.push((
        "named-numbers".into(),
        vec!["Nn-Mod DEFINITIONS AUTOMATIC TAGS ::= BEGIN\nLevel ::= INTEGER { lo(1), hi(200) }\nWindow ::= Level (lo..hi)\nCol ::= ENUMERATED { red(3), green(7) }\ncol Col ::= green\nS ::= SEQUENCE { f INTEGER { k(5) } (0..k), g Level DEFAULT hi }\nmax-v INTEGER ::= 60\nT ::= OCTET STRING (SIZE (1..max-v))\nEND\n".into()],
    ));
    out.push((
        "object-set-parameters".into(),
        vec!["Pr-Mod DEFINITIONS AUTOMATIC TAGS ::= BEGIN\nEXT ::= CLASS { &id INTEGER UNIQUE, &Type } WITH SYNTAX { ID &id TYPE &Type }\nPair { EXT : SetA, EXT : SetB } ::= SEQUENCE {\n  idA EXT.&id ({SetA}),\n  valA EXT.&Type ({SetA}{@idA}),\n  idB EXT.&id ({SetB}),\n  valB EXT.&Type ({SetB}{@idB})\n}\nImpl ::= Pair { {SetB}, {Other} }\nImpl2 ::= Pair { {Other}, {SetB} }\nSetB EXT ::= { { ID 1 TYPE INTEGER } }\nOther EXT ::= { { ID 2 TYPE BOOLEAN } | { ID 3 TYPE NULL } }\nEND\n".into()],
    ));
    // names the compiler makes up: extension groups (of COMPONENTS OF only, with and without version numbers) and
    // anonymous types at several depths
    out.push((
        "synthesised-names".into(),
        vec!["Eg-Mod DEFINITIONS AUTOMATIC TAGS ::= BEGIN\nB ::= SEQUENCE { b BOOLEAN }\nC ::= SEQUENCE { c NULL }\nA ::= SEQUENCE { a INTEGER, ..., [[ COMPONENTS OF B ]], [[ 2: COMPONENTS OF C ]], [[ x INTEGER, y BOOLEAN ]] }\nA2 ::= SEQUENCE { a INTEGER, ..., [[ COMPONENTS OF C ]] }\nN ::= SEQUENCE { inner SEQUENCE { deep CHOICE { p NULL, q SEQUENCE OF SET { r ENUMERATED { e1, e2 } } } }, other SET OF SEQUENCE { z INTEGER (0..7) } }\nEND\n".into()],
    ));
    // an object set made of other named object sets (three of them, two objects each), used in a table constraint
    out.push((
        "object-sets-of-object-sets".into(),
        vec!["Os-Mod DEFINITIONS AUTOMATIC TAGS ::= BEGIN\nKIND ::= CLASS { &code INTEGER UNIQUE, &Body } WITH SYNTAX { &Body CODE &code }\nk-int KIND ::= { INTEGER CODE 1 }\nk-bool KIND ::= { BOOLEAN CODE 2 }\nk-null KIND ::= { NULL CODE 3 }\nk-oct KIND ::= { OCTET STRING CODE 4 }\nk-str KIND ::= { IA5String CODE 5 }\nk-oid KIND ::= { OBJECT IDENTIFIER CODE 6 }\nk-real KIND ::= { UTF8String CODE 7 }\nNumeric KIND ::= { k-int | k-bool }\nOpaque KIND ::= { k-null | k-oct }\nTextual KIND ::= { k-str | k-oid }\nLate KIND ::= { k-real }\nAllKinds KIND ::= { Numeric | Opaque | Textual | Late }\nSome KIND ::= { Textual | Numeric }\nEnvelope ::= SEQUENCE { code KIND.&code ({AllKinds}), body KIND.&Body ({AllKinds}{@code}) }\nSmall ::= SEQUENCE { code KIND.&code ({Some}), body KIND.&Body ({Some}{@code}) }\nEND\n".into()],
    ));
    // alias chains of two and three hops, values governed through them, CHOICE values that name other values
    // (`edition_twin` holds another edition of the same module in which the chains end elsewhere)
    out.push(("editions".into(), vec![EDITION_A.into()]));
    out.push(("editions-b".into(), vec![EDITION_B.into()]));
    let mut rng = Rng::new(cfg.seed ^ 0x57A7E);
    for k in 0..cfg.budget(6, 40) {
        let mut g = Gen { rng: &mut rng, info_objects: true };
        let m = g.module(&format!("St{k}"), &format!("{k}x9"), 4 + k % 12);
        out.push((format!("generated-{k}"), vec![m.text()]));
    }
    out
}

const EDITION_A: &str = "Ed-Mod DEFINITIONS AUTOMATIC TAGS ::= BEGIN\nBound ::= Step\nStep ::= Narrow\nNarrow ::= INTEGER (0..200)\nBroad ::= INTEGER\nLabel ::= Name\nName ::= Short\nShort ::= BOOLEAN\nLong ::= UTF8String\nMode ::= CHOICE { bound Bound, label Label, none NULL }\nbase-bound Bound ::= 9\nbase-label Label ::= TRUE\nstart Mode ::= bound : base-bound\nnamed Mode ::= label : base-label\nHolder ::= SEQUENCE { b Bound DEFAULT base-bound, m Mode OPTIONAL }\nEND\n";
const EDITION_B: &str = "Ed-Mod DEFINITIONS AUTOMATIC TAGS ::= BEGIN\nBound ::= Step\nStep ::= Broad\nNarrow ::= INTEGER (0..200)\nBroad ::= INTEGER\nLabel ::= Name\nName ::= Long\nShort ::= BOOLEAN\nLong ::= UTF8String\nMode ::= CHOICE { bound Bound, label Label, none NULL }\nbase-bound Bound ::= 9\nbase-label Label ::= \"x\"\nstart Mode ::= bound : base-bound\nnamed Mode ::= label : base-label\nHolder ::= SEQUENCE { b Bound DEFAULT base-bound, m Mode OPTIONAL }\nEND\n";

/// another edition of a state-sensitive input: the same names standing for other types
fn edition_twin(label: &str) -> Option<Vec<String>> {
    match label {
        "editions" => Some(vec![EDITION_B.into()]),
        "editions-b" => Some(vec![EDITION_A.into()]),
        _ => None,
    }
}

/// every decimal literal n -> n + 1 (names untouched)
fn bump_numbers(t: &str) -> String {
    let mut out = String::new();
    let cs: Vec<char> = t.chars().collect();
    let mut i = 0;
    while i < cs.len() {
        let prev_ident = i > 0 && (cs[i - 1].is_alphanumeric() || cs[i - 1] == '-' || cs[i - 1] == '_');
        if cs[i].is_ascii_digit() && !prev_ident {
            let mut j = i;
            while j < cs.len() && cs[j].is_ascii_digit() {
                j += 1;
            }
            let lit: String = cs[i..j].iter().collect();
            match lit.parse::<u128>() {
                Ok(v) if j == cs.len() || !(cs[j].is_alphabetic()) => out.push_str(&(v + 1).to_string()),
                _ => out.push_str(&lit),
            }
            i = j;
        } else {
            out.push(cs[i]);
            i += 1;
        }
    }
    out
}

/// The result in a long-lived process (after everything this run has compiled, repeatedly, and on threads) must
/// be the result of a fresh process that has compiled nothing else.
fn process_state(cfg: &RunCfg, rep: &mut Report, only: Option<(&str, bool)>) {
    let probe = verif_root().join("harness/target/debug/probe");
    let inputs = state_sensitive_inputs(cfg);
    for (label, srcs) in &inputs {
        for opaque in [true, false] {
            if let Some((l, o)) = only {
                if l != label || o != opaque {
                    continue;
                }
            }
            use std::io::Write;
            let mut cmd = std::process::Command::new(&probe);
            cmd.arg("--canon");
            if !opaque {
                cmd.arg("--no-opaque");
            }
            let child = cmd.stdin(std::process::Stdio::piped()).stdout(std::process::Stdio::piped()).stderr(std::process::Stdio::null()).spawn();
            let fresh: Option<Canon> = child.ok().and_then(|mut ch| {
                ch.stdin.take()?.write_all(srcs.join("\n----\n").as_bytes()).ok()?;
                let o = ch.wait_with_output().ok()?;
                let v: Value = serde_json::from_slice(&o.stdout).ok()?;
                Some(Canon { generated: v["generated"].as_str()?.to_string(), warnings: v["warnings"].as_array()?.iter().filter_map(|w| w.as_str().map(String::from)).collect() })
            });
            let Some(fresh) = fresh else {
                rep.harness_errors.push(format!("fresh-process baseline for {label} failed"));
                continue;
            };
            rep.count("fresh-process-baseline");
            let case = json!({"state_input": label, "opaque_open_types": opaque, "sources": srcs});
            let mk = move || rasn_compiler::prelude::RasnConfig { opaque_open_types: opaque, ..Default::default() };
            let mut results: Vec<(String, Canon)> = Vec::new();
            // first a twin of the input in which every number is another one (same names, other content): whatever
            // the compiler remembers under a name must not survive into the next compilation
            let twin: Vec<String> = srcs.iter().map(|t| bump_numbers(t)).collect();
            let _ = compile_rasn_cfg(&twin, mk());
            results.push(("after compiling a twin with the same names and other numbers, same thread".into(), canon(&compile_rasn_cfg(srcs, mk()))));
            if let Some(other) = edition_twin(label) {
                let _ = compile_rasn_cfg(&other, mk());
                results.push(("after compiling another edition of the module (same names, other types), same thread".into(), canon(&compile_rasn_cfg(srcs, mk()))));
                // and the other way round: the other edition after this one against its own fresh result is the next input's business;
                // here: this edition on a thread that has seen the other one twice
                let (s2, o2) = (srcs.clone(), other.clone());
                if let Ok(c) = std::thread::spawn(move || { let _ = compile_rasn_cfg(&o2, mk()); let _ = compile_rasn_cfg(&o2, mk()); canon(&compile_rasn_cfg(&s2, mk())) }).join() {
                    results.push(("on a new thread after the other edition".into(), c));
                }
            }
            for r in 0..12 {
                results.push((format!("repetition {r} in the long-lived process"), canon(&compile_rasn_cfg(srcs, mk()))));
            }
            let handles: Vec<_> = (0..8).map(|_| { let s = srcs.clone(); std::thread::spawn(move || canon(&compile_rasn_cfg(&s, mk()))) }).collect();
            for (t, h) in handles.into_iter().enumerate() {
                if let Ok(c) = h.join() {
                    results.push((format!("thread {t} of 8"), c));
                }
            }
            for (what, c) in results {
                rep.evaluations += 1;
                if c != fresh {
                    rep.unsat("", false, json!({"why": format!("{what}: differs from the result of a fresh process: {}", first_diff(&fresh, &c)), "case": case}));
                    break;
                }
            }
        }
    }
}

fn replay_files(r: &Value, rep: &mut Report) {
    let dir = std::path::Path::new("/repo/rasn-compiler-tests/tests/modules");
    let texts: Vec<String> = r["files"].as_array().map(|a| a.iter().filter_map(|f| f.as_str()).filter_map(|f| std::fs::read_to_string(dir.join(f)).ok()).collect()).unwrap_or_default();
    let base = canon(&compile_big_stack(texts.clone()));
    let order: Vec<usize> = r["order"].as_array().map(|a| a.iter().filter_map(|x| x.as_u64().map(|x| x as usize)).collect()).unwrap_or_else(|| (0..texts.len()).collect());
    let permuted: Vec<String> = order.iter().filter_map(|i| texts.get(*i).cloned()).collect();
    let input = if r["one_source"].as_bool().unwrap_or(false) { vec![permuted.join("\n")] } else { permuted };
    rep.evaluations += 2;
    for _ in 0..3 {
        let c = canon(&compile_big_stack(input.clone()));
        if c != base {
            rep.unsat("", false, json!({"why": first_diff(&base, &c), "case": r}));
            return;
        }
    }
}

//! C05: extension markers, additions and addition groups.
use super::structs::*;
use crate::gen_types::*;
use crate::report::{Report, RunCfg};
use crate::util::*;
use serde_json::json;

fn comp(name: &str, k: usize) -> Comp {
    let tys = [Ty::Prim("BOOLEAN"), Ty::Prim("INTEGER"), Ty::Ref("Ref-Seq".into()), Ty::Prim("OCTET STRING")];
    Comp { name: name.to_string(), tag: None, ty: tys[k % tys.len()].clone(), opt: if k % 3 == 1 { Opt::Optional } else { Opt::Req } }
}

/// the same type with context tags 30, 29, .. on its components in textual order
fn retag_descending(t: &Ty) -> Ty {
    let mut n = 31u64;
    let mut re = |c: &Comp| {
        n -= 1;
        Comp { tag: Some(Tag { class: "context", num: n, kw: "none" }), ..c.clone() }
    };
    match t {
        Ty::Seq { set, root, marker, adds } => {
            let root = root.iter().map(&mut re).collect();
            let adds = adds.iter().map(|a| match a {
                Add::Comp(c) => Add::Comp(re(c)),
                Add::Group(v, cs) => Add::Group(*v, cs.iter().map(&mut re).collect()),
            }).collect();
            Ty::Seq { set: *set, root, marker: *marker, adds }
        }
        Ty::Choice { root, marker, adds } => {
            let root = root.iter().map(&mut re).collect();
            let adds = adds.iter().map(|a| match a {
                Add::Comp(c) => Add::Comp(re(c)),
                Add::Group(v, cs) => Add::Group(*v, cs.iter().map(&mut re).collect()),
            }).collect();
            Ty::Choice { root, marker: *marker, adds }
        }
        other => other.clone(),
    }
}

/// all addition layouts of length ≤ 3 over {component, group of 1, group of 2}
fn layouts(groups: bool) -> Vec<Vec<u8>> {
    let alpha: Vec<u8> = if groups { vec![0, 1, 2] } else { vec![0] };
    let mut out = vec![vec![]];
    let mut frontier = vec![vec![]];
    for _ in 0..3 {
        let mut next = Vec::new();
        for f in &frontier {
            for a in &alpha {
                let mut g: Vec<u8> = f.clone();
                g.push(*a);
                next.push(g);
            }
        }
        out.extend(next.iter().cloned());
        frontier = next;
    }
    out
}

pub fn exhaustive() -> Vec<Case> {
    let mut cases = Vec::new();
    for kind in ["seq", "set", "choice", "enum"] {
        for n_root in 0..=4usize {
            let mut shapes: Vec<(bool, Vec<u8>)> = vec![(false, vec![])];
            shapes.extend(layouts(kind == "seq").into_iter().map(|l| (true, l)));
            for (marker, layout) in shapes {
                if kind == "choice" && n_root == 0 && layout.is_empty() {
                    continue;
                }
                // an empty root is not X.680 (20.1 asks for a RootEnumeration), but the lexer takes `{ ..., a, b }`: what it
                // takes it has to number and mark like any other enumeration
                if kind == "enum" && n_root == 0 && (!marker || layout.is_empty()) {
                    continue;
                }
                let mut k = 0;
                let mut name = || {
                    k += 1;
                    format!("m{k}")
                };
                let ty = if kind == "enum" {
                    Ty::Enum { root: (0..n_root).map(|_| name()).collect(), marker, adds: layout.iter().map(|_| name()).collect() }
                } else {
                    let root: Vec<Comp> = (0..n_root).map(|i| { let mut c = comp(&name(), i); if kind == "choice" { c.opt = Opt::Req; } c }).collect();
                    let mut adds = Vec::new();
                    for (j, l) in layout.iter().enumerate() {
                        match l {
                            0 => { let mut c = comp(&name(), j + 1); if kind == "choice" { c.opt = Opt::Req; } adds.push(Add::Comp(c)) }
                            n => adds.push(Add::Group(
                                if j % 2 == 0 { Some(2 + j as u32) } else { None },
                                (0..*n as usize).map(|i| comp(&name(), i + j)).collect(),
                            )),
                        }
                    }
                    match kind {
                        "choice" => Ty::Choice { root, marker, adds },
                        _ => Ty::Seq { set: kind == "set", root, marker, adds },
                    }
                };
                for implied in [false, true] {
                    // top-level
                    cases.push(Case { env: "automatic", implied, tag: None, ty: ty.clone() });
                    // nested as a component of a SEQUENCE, and as a SEQUENCE OF element
                    cases.push(Case {
                        env: "explicit",
                        implied,
                        tag: None,
                        ty: Ty::Seq {
                            set: false,
                            root: vec![comp("head", 0), Comp { name: "nested".into(), tag: None, ty: ty.clone(), opt: Opt::Req }],
                            marker: false,
                            adds: vec![],
                        },
                    });
                }
                cases.push(Case { env: "implicit", implied: false, tag: None, ty: Ty::SeqOf { set: false, elem: Box::new(ty.clone()), elem_tag: None } });
                // explicit context tags written in descending order: the order of the notation, not of the tags, decides what is an addition
                if kind != "enum" && marker {
                    cases.push(Case { env: "explicit", implied: false, tag: None, ty: retag_descending(&ty) });
                    cases.push(Case { env: "implicit", implied: false, tag: None, ty: retag_descending(&ty) });
                }
            }
        }
    }
    cases
}

fn describe(c: &Case) -> Vec<String> {
    let mut d = vec![format!("implied:{}", c.implied)];
    fn walk(t: &Ty, d: &mut Vec<String>) {
        match t {
            Ty::Seq { set, root, marker, adds } => {
                d.push(format!("{}:marker={}:root={}:adds={}", if *set { "SET" } else { "SEQUENCE" }, marker, root.len().min(5), adds.len().min(4)));
                if adds.iter().any(|a| matches!(a, Add::Group(..))) {
                    d.push("has-group".into());
                }
                for c in root {
                    walk(&c.ty, d);
                }
                for a in adds {
                    match a {
                        Add::Comp(c) => walk(&c.ty, d),
                        Add::Group(_, cs) => cs.iter().for_each(|c| walk(&c.ty, d)),
                    }
                }
            }
            Ty::Choice { root, marker, adds } => {
                d.push(format!("CHOICE:marker={}:root={}:adds={}", marker, root.len().min(5), adds.len().min(4)));
                for c in root {
                    walk(&c.ty, d);
                }
            }
            Ty::Enum { root, marker, adds } => d.push(format!("ENUMERATED:marker={}:root={}:adds={}", marker, root.len().min(5), adds.len().min(4))),
            Ty::SeqOf { elem, .. } => walk(elem, d),
            _ => {}
        }
    }
    walk(&c.ty, &mut d);
    d.sort();
    d.dedup();
    d
}

pub fn run(cfg: &RunCfg) -> Report {
    let mut rep = Report::new(
        "C05",
        "exhaustive: {SEQUENCE, SET, CHOICE, ENUMERATED} × 0..4 root components × (no marker | marker followed by every layout of ≤3 additions over {component, [[group of 1]], [[group of 2]]} with/without version numbers) × {top-level, nested component, SEQUENCE OF element} × EXTENSIBILITY IMPLIED on/off; marked types again with explicit context tags in descending textual order; plus seeded random constructed types (depth ≤3, ≤6 components, groups, random tags). Non-trivial = compiled and all items read back; distinct = distinct (module defaults, notation)",
    );
    let mut cases: Vec<Case> = if let Some(r) = &cfg.replay { vec![case_from_replay(r).expect("bad replay")] } else { Vec::new() };
    if cfg.replay.is_none() {
        cases.extend(load_corpus("C05").iter().filter_map(case_from_replay));
        cases.extend(exhaustive());
        cases.extend(random_cases(cfg, 0xC05, cfg.budget(800, 20000), || GenCfg { max_depth: 3, max_comps: 6, tags: true, groups: true, defaults: false }));
        rep.exhaustive = true;
    }
    let setting = cfg.replay.as_ref().and_then(|r| r.get("case").unwrap_or(r).get("setting").and_then(|x| x.as_str()).map(|x| x.to_string())).unwrap_or_default();
    if setting == CLASS_FIELD_SETTING || setting == CLASS_FIELD_SETTING_LAST {
        judge_class_field_at("c05", &cases, &mut rep, &describe, setting == CLASS_FIELD_SETTING_LAST);
        return rep;
    }
    judge("c05", &cases, &mut rep, &describe);
    if cfg.replay.is_none() {
        // ... and when a component is written as a reference to a fixed-type class field (the linker rebuilds such
        // definitions member by member, first-extension index included)
        judge_class_field("c05", &cases, &mut rep, &describe);
        components_of_extensible(&mut rep);
    }
    rep
}

/// COMPONENTS OF an extensible type copies its root components only and brings no marker along: an including
/// type without a marker of its own stays non-extensible and none of its components is an addition.
fn components_of_extensible(rep: &mut Report) {
    for (incl, base) in [("Aincl", "Zbase"), ("Zincl", "Abase")] {
        for kw in ["SEQUENCE", "SET"] {
            for hdr in ["AUTOMATIC TAGS", "EXPLICIT TAGS", "IMPLICIT TAGS"] {
                let (t1, t2, t3) = if hdr == "AUTOMATIC TAGS" { ("", "", "") } else { ("[0] ", "[1] ", "[2] ") };
                let text = format!(
                    "Cof-Mod DEFINITIONS {hdr} ::= BEGIN\n{base} ::= {kw} {{ t1 {t1}INTEGER, ..., t2 {t2}NULL }}\n{incl} ::= {kw} {{ y {t3}BOOLEAN, COMPONENTS OF {base} }}\nEND\n"
                );
                rep.evaluations += 1;
                rep.count("components-of-extensible-type");
                let case = json!({"asn1": text, "env": "automatic", "implied": false, "components_of_extensible": true});
                match compile_rasn(&[text.clone()]) {
                    Outcome::Ok { generated, .. } => match crate::proj::project(&generated) {
                        Ok(ms) => {
                            let Some(it) = ms.first().and_then(|m| m.item(incl)) else {
                                rep.unsat("", false, json!({"why": format!("{incl} is missing"), "case": case}));
                                continue;
                            };
                            let crate::proj::ItemKind::Struct { fields, .. } = &it.kind else { continue };
                            let names: Vec<&str> = fields.iter().map(|f| f.name.as_str()).collect();
                            let marked: Vec<&str> = fields.iter().filter(|f| f.attrs.has("extension_addition") || f.attrs.has("extension_addition_group")).map(|f| f.name.as_str()).collect();
                            let non_exhaustive = it.attrs.non_exhaustive;
                            let mut sorted = names.clone();
                            sorted.sort();
                            if sorted != vec!["t1", "y"] || !marked.is_empty() || non_exhaustive {
                                rep.unsat("", false, json!({"why": format!("{incl} (no marker of its own, COMPONENTS OF the extensible {base}): fields {:?}, marked as additions {:?}, non_exhaustive {non_exhaustive}; expected the root components y and t1, nothing marked, not extensible", names, marked), "case": case}));
                            }
                        }
                        Err(e) => rep.harness_errors.push(format!("projection failed: {e}")),
                    },
                    Outcome::Err(e) => rep.sample(json!({"compile_err": e, "module": text})),
                    Outcome::Panic(p) => rep.unsat("", false, json!({"why": format!("panic: {p}"), "case": case})),
                }
            }
        }
    }
}

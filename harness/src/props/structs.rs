//! Shared correspondence/oracle runner for constructed types (C02, C03, C05).
use crate::gen_types::*;
use crate::proj;
use crate::report::{Report, RunCfg};
use crate::util::*;
use serde_json::json;

#[derive(Clone, Debug)]
pub struct Case {
    pub env: &'static str, // explicit | implicit | automatic | none
    pub implied: bool,
    pub tag: Option<Tag>,
    pub ty: Ty,
}

pub fn header(env: &str, implied: bool) -> String {
    let tags = match env {
        "explicit" => "EXPLICIT TAGS ",
        "implicit" => "IMPLICIT TAGS ",
        "automatic" => "AUTOMATIC TAGS ",
        _ => "",
    };
    format!("DEFINITIONS {tags}{}::= BEGIN", if implied { "EXTENSIBILITY IMPLIED " } else { "" })
}

pub fn top_name(i: usize) -> String {
    format!("Tk{i}E")
}

impl Case {
    pub fn asn(&self, i: usize) -> String {
        format!("{} ::= {}{}", top_name(i), self.tag.as_ref().map(tag_asn).unwrap_or_default(), self.ty.asn())
    }
}

/// Compile cases grouped by module header; returns per case the observed items (as s-expressions) or an error text.
pub fn compile_cases(cases: &[Case], rep: &mut Report) -> Vec<Option<Vec<String>>> {
    compile_cases_with(cases, rep, &|c: &Case, i: usize| c.asn(i))
}

/// The type is written as the body of a parameterized type (whose parameter it does not use) and the compared
/// definition is an instance of it: an instance must come out like the type written in place.
pub fn judge_templates(prop: &str, cases: &[Case], rep: &mut Report, describe: &dyn Fn(&Case) -> Vec<String>) {
    let keep: Vec<Case> = cases.iter().filter(|c| c.tag.is_none()).cloned().collect();
    let obs = compile_cases_with(&keep, rep, &|c: &Case, i: usize| format!("Par{i}E {{ Dummy }} ::= {}\n{} ::= Par{i}E {{ NULL }}", c.ty.asn(), top_name(i)));
    for o in obs.iter().flatten() {
        let _ = o;
        rep.count("instance-of-template");
    }
    judge_obs(prop, &keep, obs, rep, describe, "written as the body of a parameterized type, compared definition = an instance of it");
}

/// the first component / alternative of plain type INTEGER is written as a reference to a fixed-type field of an
/// information object class (`CLS.&code`, the field being INTEGER): the definition must come out as with INTEGER written
/// in place. (Definitions that mention a class are rebuilt by the linker, member by member.)
pub fn with_class_field(asn: &str, i: usize) -> Option<String> {
    with_class_field_at(asn, i, false)
}

/// `last`: the last eligible occurrence instead of the first (mostly one inside an anonymous nested type or a list element)
pub fn with_class_field_at(asn: &str, i: usize, last: bool) -> Option<String> {
    let mut found = None;
    for (at, _) in asn.match_indices(" INTEGER") {
        let rest = &asn[at + 8..];
        let rest_t = rest.strip_prefix(" OPTIONAL").unwrap_or(rest);
        if rest_t.starts_with(',') || rest_t.starts_with(" }") {
            found = Some(format!("{} CLS{i}.&code{}", &asn[..at], rest));
            if !last {
                break;
            }
        }
    }
    found
}

pub const CLASS_FIELD_SETTING: &str = "one INTEGER component written as a fixed-type class field reference";
pub const CLASS_FIELD_SETTING_LAST: &str = "the last INTEGER component (nested ones included) written as a fixed-type class field reference";

pub fn judge_class_field(prop: &str, cases: &[Case], rep: &mut Report, describe: &dyn Fn(&Case) -> Vec<String>) {
    judge_class_field_at(prop, cases, rep, describe, false);
    judge_class_field_at(prop, cases, rep, describe, true);
}

pub fn judge_class_field_at(prop: &str, cases: &[Case], rep: &mut Report, describe: &dyn Fn(&Case) -> Vec<String>, last: bool) {
    let keep: Vec<Case> = cases
        .iter()
        .enumerate()
        .filter(|(i, c)| {
            let a = c.ty.asn();
            // the second pass only where it differs from the first
            c.tag.is_none() && with_class_field_at(&a, *i, last).is_some() && (!last || with_class_field_at(&a, *i, true) != with_class_field_at(&a, *i, false))
        })
        .map(|(_, c)| c.clone())
        .collect();
    let obs = compile_cases_with(&keep, rep, &|c: &Case, i: usize| {
        format!("CLS{i} ::= CLASS {{ &code INTEGER UNIQUE, &Type OPTIONAL }}\n{} ::= {}", top_name(i), with_class_field_at(&c.ty.asn(), i, last).unwrap_or_else(|| c.ty.asn()))
    });
    for o in obs.iter().flatten() {
        let _ = o;
        rep.count(if last { "class-field-member(last occurrence)" } else { "class-field-member" });
    }
    judge_obs(prop, &keep, obs, rep, describe, if last { CLASS_FIELD_SETTING_LAST } else { CLASS_FIELD_SETTING });
}

fn case_json(c: &Case, i: usize, setting: &str) -> serde_json::Value {
    let mut v = json!({"env": c.env, "implied": c.implied, "asn1": c.asn(i), "module": format!("Struct-Mod {}\n{}{}\nEND", header(c.env, c.implied), BASE_DEFS, c.asn(i)), "ty_sx": c.ty.sx(), "tag_sx": tag_sx(&c.tag)});
    if !setting.is_empty() {
        v["setting"] = json!(setting);
    }
    v
}

pub fn compile_cases_with(cases: &[Case], rep: &mut Report, asn: &dyn Fn(&Case, usize) -> String) -> Vec<Option<Vec<String>>> {
    let mut out: Vec<Option<Vec<String>>> = vec![None; cases.len()];
    let rcfg = rasn_compiler::prelude::RasnConfig::default();
    let mut groups: std::collections::BTreeMap<(String, bool), Vec<usize>> = Default::default();
    for (i, c) in cases.iter().enumerate() {
        groups.entry((c.env.to_string(), c.implied)).or_default().push(i);
    }
    for ((env, implied), idxs) in groups {
        let render = |sel: &[usize]| {
            vec![format!(
                "Struct-Mod {}\n{}{}\nEND\n",
                header(&env, implied),
                BASE_DEFS,
                sel.iter().map(|k| asn(&cases[idxs[*k]], idxs[*k])).collect::<Vec<_>>().join("\n")
            )]
        };
        for (sel, outcome) in batch_compile(idxs.len(), 60, &render, &rcfg) {
            match outcome {
                Outcome::Ok { generated, warnings } => {
                    let mods = match proj::project(&generated) {
                        Ok(m) => m,
                        Err(e) => {
                            rep.harness_errors.push(format!("projection failed: {e}"));
                            continue;
                        }
                    };
                    let Some(m) = mods.first() else { continue };
                    for k in sel {
                        let i = idxs[k];
                        rep.evaluations += 1;
                        let name = top_name(i);
                        if warnings.iter().any(|w| w.contains(&name)) {
                            rep.count("warning-for-case");
                        }
                        let items: Vec<String> = m
                            .items
                            .iter()
                            .filter(|it| it.name.trim_start_matches("Anonymous").starts_with(&name))
                            .filter_map(item_sx)
                            .collect();
                        out[i] = Some(items);
                    }
                }
                // the generators write valid notation only: a definition that makes the whole compilation fail has no
                // item at all, i.e. none of its components / tags / markers is represented
                Outcome::Err(e) => {
                    rep.evaluations += 1;
                    rep.count("compile-err");
                    let i = idxs[sel[0]];
                    rep.unsat("", false, json!({"why": format!("valid notation, but the compilation fails: {e}"), "case": case_json(&cases[i], i, "")}));
                }
                Outcome::Panic(p) => {
                    rep.evaluations += 1;
                    rep.count("compile-panic");
                    let i = idxs[sel[0]];
                    rep.unsat("", false, json!({"why": format!("valid notation, but the compilation panics: {p}"), "case": case_json(&cases[i], i, "")}));
                }
            }
        }
    }
    out
}

pub fn request(c: &Case, i: usize, items: &[String]) -> String {
    format!(
        "struct {} {} {} {} {} ( {} ) {}",
        c.env,
        sx_bool(c.implied),
        hex(&top_name(i)),
        tag_sx(&c.tag),
        c.ty.sx(),
        hex("Ref-Choice"),
        sx_list(items.iter().cloned())
    )
}

pub const ENVS: [&str; 4] = ["explicit", "implicit", "automatic", "none"];

pub fn random_cases(cfg: &RunCfg, salt: u64, n: usize, gcfg: impl Fn() -> GenCfg) -> Vec<Case> {
    let mut rng = Rng::new(cfg.seed ^ salt);
    let mut cases = Vec::new();
    for _ in 0..n {
        let env = *rng.pick(&ENVS);
        let implied = rng.chance(1, 4);
        let mut g = TyGen { rng: &mut rng, cfg: gcfg() };
        let ty = g.top();
        let tag = g.tag();
        cases.push(Case { env, implied, tag, ty });
    }
    cases
}

/// Parsed driver answer: `model=.. c02=.. c05=.. c03=..`
pub struct Verdicts {
    pub model: String,
    pub c02: String,
    pub c05: String,
    pub c03: String,
}

pub fn parse_answer(a: &str) -> Option<Verdicts> {
    let mut v = Verdicts { model: String::new(), c02: String::new(), c05: String::new(), c03: String::new() };
    for tok in a.split(' ') {
        let (k, val) = tok.split_once('=')?;
        match k {
            "model" => v.model = val.into(),
            "c02" => v.c02 = val.into(),
            "c05" => v.c05 = val.into(),
            "c03" => v.c03 = val.into(),
            _ => {}
        }
    }
    Some(v)
}

/// Run cases through compiler + driver and record, for property `prop` (c02|c05|c03), disagreements and unsat cases.
pub fn judge(prop: &str, cases: &[Case], rep: &mut Report, describe: &dyn Fn(&Case) -> Vec<String>) {
    let obs = compile_cases(cases, rep);
    judge_obs(prop, cases, obs, rep, describe, "");
}

/// The same cases (those without references to the shared base definitions), but all module defaults in ONE
/// compilation: one module per (tagging default, EXTENSIBILITY IMPLIED) pair, named so that the modules are
/// generated in two different orders. Every case must come out as in its own module's environment.
pub fn judge_multi(prop: &str, cases: &[Case], rep: &mut Report, describe: &dyn Fn(&Case) -> Vec<String>) {
    let keep: Vec<Case> = cases.iter().filter(|c| !c.asn(0).contains("Ref-")).cloned().collect();
    for order in 0..2 {
        let mut groups: std::collections::BTreeMap<(String, bool), Vec<usize>> = Default::default();
        for (i, c) in keep.iter().enumerate() {
            groups.entry((c.env.to_string(), c.implied)).or_default().push(i);
        }
        let keys: Vec<(String, bool)> = groups.keys().cloned().collect();
        let n_groups = keys.len();
        let mod_name = |g: usize| format!("M{}x{}-Mod", (b'a' + if order == 0 { g } else { n_groups - 1 - g } as u8) as char, g);
        let per = 40;
        let rounds = groups.values().map(|v| v.len().div_ceil(per)).max().unwrap_or(0);
        let mut out: Vec<Option<Vec<String>>> = vec![None; keep.len()];
        for r in 0..rounds {
            let mut srcs = Vec::new();
            let mut sel: Vec<(usize, Vec<usize>)> = Vec::new();
            for (g, k) in keys.iter().enumerate() {
                let idxs: Vec<usize> = groups[k].iter().skip(r * per).take(per).cloned().collect();
                if idxs.is_empty() {
                    continue;
                }
                srcs.push(format!("{} {}\n{}\nEND\n", mod_name(g), header(&k.0, k.1), idxs.iter().map(|i| keep[*i].asn(*i)).collect::<Vec<_>>().join("\n")));
                sel.push((g, idxs));
            }
            match compile_rasn(&srcs) {
                Outcome::Ok { generated, .. } => match proj::project(&generated) {
                    Ok(mods) => {
                        for (g, idxs) in &sel {
                            let want = mod_name(*g).to_lowercase().replace('-', "_");
                            let Some(m) = mods.iter().find(|m| m.name == want) else {
                                rep.harness_errors.push(format!("module {want} missing from a multi-module compilation"));
                                continue;
                            };
                            for i in idxs {
                                rep.evaluations += 1;
                                rep.count("multi-module-compilation");
                                let name = top_name(*i);
                                out[*i] = Some(m.items.iter().filter(|it| it.name.trim_start_matches("Anonymous").starts_with(&name)).filter_map(item_sx).collect());
                            }
                        }
                    }
                    Err(e) => rep.harness_errors.push(format!("projection failed: {e}")),
                },
                Outcome::Err(e) => {
                    rep.count("multi-module:compile-err");
                    rep.sample(json!({"compile_err": e}));
                }
                Outcome::Panic(p) => rep.harness_errors.push(format!("panic in a multi-module compilation: {p}")),
            }
        }
        judge_obs(prop, &keep, out, rep, describe, if order == 0 { "compiled together with modules of the other tagging defaults (generated after them)" } else { "compiled together with modules of the other tagging defaults (generated before them)" });
    }
}

fn judge_obs(prop: &str, cases: &[Case], obs: Vec<Option<Vec<String>>>, rep: &mut Report, describe: &dyn Fn(&Case) -> Vec<String>, setting: &str) {
    let mut reqs = Vec::new();
    let mut idx = Vec::new();
    for (i, o) in obs.iter().enumerate() {
        if let Some(items) = o {
            reqs.push(request(&cases[i], i, items));
            idx.push(i);
        }
    }
    let ans = match run_driver(&reqs) {
        Ok(a) => a,
        Err(e) => {
            rep.harness_errors.push(e);
            return;
        }
    };
    for (k, a) in ans.iter().enumerate() {
        let i = idx[k];
        let c = &cases[i];
        let Some(v) = parse_answer(a) else {
            rep.harness_errors.push(format!("driver answer `{a}`"));
            continue;
        };
        for d in describe(c) {
            rep.count(&d);
        }
        rep.distinct.insert(c.asn(0) + c.env + if c.implied { "I" } else { "" });
        let mut case_json = json!({"env": c.env, "implied": c.implied, "asn1": c.asn(i), "module": format!("Struct-Mod {}\n{}{}\nEND", header(c.env, c.implied), BASE_DEFS, c.asn(i)), "ty_sx": c.ty.sx(), "tag_sx": tag_sx(&c.tag)});
        if !setting.is_empty() {
            case_json["setting"] = json!(setting);
        }
        if k % 211 == 0 {
            rep.sample(json!({"env": c.env, "implied": c.implied, "asn1": c.asn(i), "answer": a}));
        }
        // an instance of a template may hoist differently from the type written in place (C09's business):
        // only the property's own verdict is taken there
        let agree = v.model == "agree" || setting.starts_with("written as the body of a parameterized type");
        if !agree {
            // only the projection of this property matters: a model difference is reported for every
            // structural property, because the model is shared
            rep.disagree(json!({"case": case_json, "model": v.model}));
        }
        let verdict = match prop {
            "c02" => &v.c02,
            "c05" => &v.c05,
            _ => &v.c03,
        };
        if let Some(rest) = verdict.strip_prefix("bad:") {
            let (classes, msg) = rest.split_once(':').unwrap_or((rest, ""));
            for class in classes.split('+') {
                let class = if class == "unclassified" { "" } else { class };
                rep.unsat(class, agree, json!({"why": msg, "case": case_json}));
            }
        }
    }
}

pub fn case_from_replay(v: &serde_json::Value) -> Option<Case> {
    let v = v.get("case").unwrap_or(v);
    let env = ENVS.iter().find(|e| **e == v["env"].as_str().unwrap_or(""))?;
    let ty = Ty::from_sx(&parse_sx(v["ty_sx"].as_str()?)?)?;
    let tag = tag_from_sx(&parse_sx(v["tag_sx"].as_str()?)?)?;
    Some(Case { env, implied: v["implied"].as_bool()?, tag, ty })
}

/// generic run: model correspondence only (used while calibrating the model)
pub fn run_model(cfg: &RunCfg) -> Report {
    let mut rep = Report::new("STRUCT", "random constructed types");
    let cases = random_cases(cfg, 0x57, cfg.budget(1500, 20000), || GenCfg { max_depth: 3, max_comps: 6, tags: true, groups: true, defaults: true });
    let obs = compile_cases(&cases, &mut rep);
    let mut reqs = Vec::new();
    let mut idx = Vec::new();
    for (i, o) in obs.iter().enumerate() {
        if let Some(items) = o {
            reqs.push(request(&cases[i], i, items));
            idx.push(i);
        }
    }
    match run_driver(&reqs) {
        Ok(ans) => {
            for (k, a) in ans.iter().enumerate() {
                let i = idx[k];
                if a != "model=agree" {
                    rep.disagree(json!({"asn1": cases[i].asn(i), "env": cases[i].env, "implied": cases[i].implied, "answer": a}));
                }
            }
        }
        Err(e) => rep.harness_errors.push(e),
    }
    rep
}

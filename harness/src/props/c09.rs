//! C09: notations defined by expansion compile like their hand-expanded form.
use crate::modset::module_items;
use crate::report::{Report, RunCfg};
use crate::util::*;
use serde_json::{json, Value};

#[derive(Clone, Debug)]
pub struct Pair {
    pub kind: String,
    pub sugared: String,
    pub expanded: String,
    /// names of the definitions to compare
    pub targets: Vec<String>,
    /// COMPONENTS OF only: the environment for the Lean model, and per target the written form
    pub env: Vec<(String, Vec<(bool, String)>, Option<Vec<(bool, String)>>)>,
}

impl Pair {
    fn to_json(&self) -> Value {
        json!({"kind": self.kind, "sugared": self.sugared, "expanded": self.expanded, "targets": self.targets,
               "env": self.env.iter().map(|(n, r, e)| json!([n, r.iter().map(|(o, x)| json!([o, x])).collect::<Vec<_>>(), e.as_ref().map(|e| e.iter().map(|(o, x)| json!([o, x])).collect::<Vec<_>>())])).collect::<Vec<_>>()})
    }
    fn from_json(v: &Value) -> Pair {
        let items = |x: &Value| -> Vec<(bool, String)> { x.as_array().map(|a| a.iter().map(|p| (p[0].as_bool().unwrap_or(false), p[1].as_str().unwrap_or("").to_string())).collect()).unwrap_or_default() };
        Pair {
            kind: v["kind"].as_str().unwrap_or("").into(),
            sugared: v["sugared"].as_str().unwrap_or("").into(),
            expanded: v["expanded"].as_str().unwrap_or("").into(),
            targets: v["targets"].as_array().map(|a| a.iter().filter_map(|x| x.as_str().map(String::from)).collect()).unwrap_or_default(),
            env: v["env"].as_array().map(|a| a.iter().map(|t| (t[0].as_str().unwrap_or("").to_string(), items(&t[1]), if t[2].is_null() { None } else { Some(items(&t[2])) })).collect()).unwrap_or_default(),
        }
    }
}

fn module(name: &str, body: &str) -> String {
    format!("{name} DEFINITIONS AUTOMATIC TAGS ::= BEGIN\n{body}END\n")
}

fn module_h(name: &str, header: &str, body: &str) -> String {
    format!("{name} DEFINITIONS {header} ::= BEGIN\n{body}END\n")
}

const COMP_TYPES: [&str; 6] = ["INTEGER", "BOOLEAN", "UTF8String", "NULL", "OCTET STRING", "INTEGER (0..7)"];

/// names that sort before / after anything else of the module
fn spell(rng: &mut Rng, base: &str, k: usize, upper: bool) -> String {
    let p = *rng.pick(&["a", "m", "z"]);
    let n = format!("{p}{base}{k}");
    if upper {
        let mut c = n.chars();
        c.next().map(|f| f.to_ascii_uppercase().to_string() + c.as_str()).unwrap_or_default()
    } else {
        n
    }
}

fn gen_value_refs(rng: &mut Rng, k: usize) -> Pair {
    // chain of 1..4 value references ending in a literal
    let depth = 1 + rng.below(4);
    let lit = 5 + rng.below(200) as i64;
    let mut names: Vec<String> = (0..depth).map(|i| spell(rng, "val", k * 10 + i, false)).collect();
    names.dedup();
    let mut body_s = String::new();
    for (i, n) in names.iter().enumerate() {
        if i + 1 < names.len() {
            body_s.push_str(&format!("{n} INTEGER ::= {}\n", names[i + 1]));
        } else {
            body_s.push_str(&format!("{n} INTEGER ::= {lit}\n"));
        }
    }
    let t = spell(rng, "Tgt", k, true);
    let nn = spell(rng, "Named", k, true);
    let form = rng.below(16);
    let (s, e) = match form {
        0 => (format!("{t} ::= INTEGER (0..{})\n", names[0]), format!("{t} ::= INTEGER (0..{lit})\n")),
        // the reference is the only one of the definition and stands in a later operand / in the lower bound only
        5 => (format!("{t} ::= INTEGER (0..3 | {})\n", names[0]), format!("{t} ::= INTEGER (0..3 | {lit})\n")),
        6 => (format!("{t} ::= OCTET STRING (SIZE (1..2 | {}))\n", names[0]), format!("{t} ::= OCTET STRING (SIZE (1..2 | {lit}))\n")),
        7 => (format!("{t} ::= INTEGER ({}..1000)\n", names[0]), format!("{t} ::= INTEGER ({lit}..1000)\n")),
        // half-open ranges whose only bound is the reference
        8 => (format!("{t} ::= INTEGER ({}..MAX)\n", names[0]), format!("{t} ::= INTEGER ({lit}..MAX)\n")),
        9 => (format!("{t} ::= INTEGER (MIN..{})\n", names[0]), format!("{t} ::= INTEGER (MIN..{lit})\n")),
        10 => (format!("{t} ::= OCTET STRING (SIZE ({}..MAX))\n", names[0]), format!("{t} ::= OCTET STRING (SIZE ({lit}..MAX))\n")),
        // a value of a type with named numbers, given by one of them, used as a bound of that type
        11 => {
            let vn = spell(rng, "lvl", k, false);
            (
                format!("{nn} ::= INTEGER {{ low(1), high({lit}) }}\n{vn} {nn} ::= high\n{t} ::= {nn} (0..{vn})\n"),
                format!("{nn} ::= INTEGER {{ low(1), high({lit}) }}\n{vn} {nn} ::= high\n{t} ::= {nn} (0..{lit})\n"),
            )
        }
        // the type's own named numbers in every operand of a constraint of three and four operands, next to values of
        // the module that are called the same (the named numbers win, X.680 19.8)
        12..=15 => {
            let other = lit + 1000;
            let decoys = format!("hi INTEGER ::= {other}\nmid INTEGER ::= {}\nlo INTEGER ::= {}\n", other + 1, other + 2);
            let nums = format!("{{ lo(1), mid(5), hi({lit}) }}");
            let (c_s, c_e) = match form {
                12 => ("(lo | mid | hi)".to_string(), format!("(1 | 5 | {lit})")),
                13 => ("(lo..mid | hi | 1000)".to_string(), format!("(1..5 | {lit} | 1000)")),
                14 => ("(lo..hi ^ mid..hi ^ lo..hi)".to_string(), format!("(1..{lit} ^ 5..{lit} ^ 1..{lit})")),
                _ => ("(0 | lo | mid | hi)".to_string(), format!("(0 | 1 | 5 | {lit})")),
            };
            if (k / 6) % 2 == 0 {
                (format!("{decoys}{t} ::= INTEGER {nums} {c_s}\n"), format!("{decoys}{t} ::= INTEGER {nums} {c_e}\n"))
            } else {
                (format!("{decoys}{t} ::= SEQUENCE {{ f INTEGER {nums} {c_s} }}\n"), format!("{decoys}{t} ::= SEQUENCE {{ f INTEGER {nums} {c_e} }}\n"))
            }
        }
        1 => (format!("{t} ::= OCTET STRING (SIZE (1..{}))\n", names[0]), format!("{t} ::= OCTET STRING (SIZE (1..{lit}))\n")),
        2 => {
            let decoy = spell(rng, "Decoy", k, true);
            let other = lit + 1000;
            (
                format!("{decoy} ::= INTEGER {{ lo(3), hi({other}) }}\n{t} ::= INTEGER {{ lo(1), hi({lit}) }} (lo..hi)\n"),
                format!("{decoy} ::= INTEGER {{ lo(3), hi({other}) }}\n{t} ::= INTEGER {{ lo(1), hi({lit}) }} (1..{lit})\n"),
            )
        }
        3 => {
            // another type names a number the same way: the reference must be scoped by the parent type
            let decoy = spell(rng, "Decoy", k, true);
            let other = lit + 1000;
            (
                format!("{decoy} ::= INTEGER {{ top({other}), lo(3), hi({other}) }}\n{nn} ::= INTEGER {{ top({lit}) }}\n{t} ::= {nn} (0..top)\n"),
                format!("{decoy} ::= INTEGER {{ top({other}), lo(3), hi({other}) }}\n{nn} ::= INTEGER {{ top({lit}) }}\n{t} ::= {nn} (0..{lit})\n"),
            )
        }
        _ => (
            format!("{t} ::= SEQUENCE {{ f INTEGER ({}..{}), g SEQUENCE (SIZE ({})) OF BOOLEAN }}\n", 0, names[0], names[0]),
            format!("{t} ::= SEQUENCE {{ f INTEGER (0..{lit}), g SEQUENCE (SIZE ({lit})) OF BOOLEAN }}\n"),
        ),
    };
    // referenced definitions before or after their use
    let before = rng.chance(1, 2);
    let sug = if before { format!("{body_s}{s}") } else { format!("{s}{body_s}") };
    Pair { kind: format!("value-reference:form{form}:depth{depth}"), sugared: module("Sug", &sug), expanded: module("Sug", &format!("{body_s}{e}")), targets: vec![t], env: vec![] }
}

fn gen_components_of(rng: &mut Rng, k: usize) -> Pair {
    let n = 2 + rng.below(4);
    let names: Vec<String> = (0..n).map(|i| spell(rng, "Seq", k * 10 + i, true)).collect();
    // definition i may refer to definitions with larger index (acyclic), or occasionally anything (cycles)
    let mut env: Vec<(String, Vec<(bool, String)>, Option<Vec<(bool, String)>>)> = Vec::new();
    for i in 0..n {
        let mut uid = 0;
        let mut item = |rng: &mut Rng, allow_of: bool| -> (bool, String) {
            uid += 1;
            if allow_of && i + 1 < n && rng.chance(1, 3) {
                (true, names[i + 1 + rng.below(n - i - 1)].clone())
            } else {
                (false, format!("c{i}x{uid}"))
            }
        };
        let style = rng.below(4);
        let n_root = 1 + rng.below(3);
        let mut root: Vec<(bool, String)> = Vec::new();
        match style {
            // tail form: components first, COMPONENTS OF last
            0 | 1 => {
                for _ in 0..n_root {
                    root.push(item(rng, false));
                }
                if i + 1 < n {
                    for _ in 0..1 + rng.below(2) {
                        root.push((true, names[i + 1 + rng.below(n - i - 1)].clone()));
                    }
                }
            }
            // anywhere
            _ => {
                for _ in 0..n_root + 1 {
                    root.push(item(rng, true));
                }
            }
        }
        let ext = if style == 3 || (style == 1 && !root.iter().any(|x| x.0)) || rng.chance(1, 6) {
            Some((0..rng.below(3)).map(|_| item(rng, false)).collect::<Vec<_>>())
        } else {
            None
        };
        if !root.iter().any(|x| !x.0) {
            root.insert(0, item(rng, false));
        }
        env.push((names[i].clone(), root, ext));
    }
    let ty_of = |c: &str| -> &str { COMP_TYPES[c.bytes().map(|b| b as usize).sum::<usize>() % COMP_TYPES.len()] };
    let render = |env: &[(String, Vec<(bool, String)>, Option<Vec<(bool, String)>>)]| -> String {
        let mut s = String::new();
        for (n, root, ext) in env {
            let item = |(of, x): &(bool, String)| if *of { format!("COMPONENTS OF {x}") } else { format!("{x} {}", ty_of(x)) };
            let mut parts: Vec<String> = root.iter().map(item).collect();
            if let Some(e) = ext {
                parts.push("...".into());
                parts.extend(e.iter().map(item));
            }
            s.push_str(&format!("{n} ::= SEQUENCE {{ {} }}\n", parts.join(", ")));
        }
        s
    };
    // hand expansion (X.680 25.5), in place, root components only, cycles skipped
    fn root_of(env: &[(String, Vec<(bool, String)>, Option<Vec<(bool, String)>>)], name: &str, vis: &mut Vec<String>) -> Vec<String> {
        let Some((_, root, _)) = env.iter().find(|e| e.0 == name) else { return vec![] };
        let mut out = Vec::new();
        for (of, x) in root {
            if *of {
                if !vis.contains(x) {
                    vis.push(x.clone());
                    out.extend(root_of(env, x, vis));
                    vis.pop();
                }
            } else {
                out.push(x.clone());
            }
        }
        out
    }
    let mut expanded_env = env.clone();
    for e in expanded_env.iter_mut() {
        let mut vis = vec![e.0.clone()];
        let r = root_of(&env, &e.0, &mut vis);
        e.1 = r.into_iter().map(|c| (false, c)).collect();
        if let Some(x) = e.2.as_mut() {
            // COMPONENTS OF inside the additions is not generated
            x.retain(|i| !i.0);
        }
    }
    // order of the definitions in the text: shuffled (before / after use)
    let mut order: Vec<usize> = (0..n).collect();
    for i in (1..n).rev() {
        order.swap(i, rng.below(i + 1));
    }
    let shuffled: Vec<_> = order.iter().map(|i| env[*i].clone()).collect();
    let shuffled_e: Vec<_> = order.iter().map(|i| expanded_env[*i].clone()).collect();
    Pair { kind: "components-of".into(), sugared: module("Sug", &render(&shuffled)), expanded: module("Sug", &render(&shuffled_e)), targets: names, env }
}

fn gen_parameterized(rng: &mut Rng, k: usize) -> Pair {
    let n_params = 1 + rng.below(3);
    let tpl = spell(rng, "Tpl", k, true);
    // parameter kinds: type or value
    let kinds: Vec<bool> = (0..n_params).map(|_| rng.chance(1, 2)).collect(); // true = type
    // governors of value parameters: the built-in type, a user-defined type, user-defined types spelled in capitals
    let govs: Vec<&str> = kinds.iter().map(|_| *rng.pick(&["INTEGER", "INTEGER", "Gov-Int", "UINT8", "N", "OCTET-COUNT"])).collect();
    // value arguments are literals or references to constants of the module. The name of a formal value parameter is a
    // fresh one, or the name of the constant the first instance passes for it, or the name of a constant the first
    // instance passes for ANOTHER parameter: a formal parameter hides a definition of the same name inside the template
    // only, the arguments are written in the scope of the instance
    let n_inst = 1 + rng.below(3);
    let by_ref: Vec<Vec<bool>> = (0..n_inst).map(|_| kinds.iter().map(|t| !*t && rng.chance(1, 2)).collect()).collect();
    let gname = |j: usize, i: usize| format!("gk{k}i{j}p{i}");
    let value_params: Vec<usize> = (0..n_params).filter(|i| !kinds[*i]).collect();
    let formal: Vec<String> = (0..n_params)
        .map(|i| {
            if kinds[i] {
                // a type parameter named like a type of the module (it hides that type inside the template)
                let homonym = *rng.pick(&["N", "Gov-Int", "UINT8", "OCTET-COUNT"]);
                if rng.chance(1, 3) && !govs.contains(&homonym) { homonym.to_string() } else { format!("T{i}") }
            } else {
                match rng.below(4) {
                    0 if by_ref[0][i] => gname(0, i),
                    1 => match value_params.iter().find(|o| **o != i && by_ref[0][**o]) {
                        Some(o) => gname(0, *o),
                        None => format!("n{i}"),
                    },
                    _ => format!("n{i}"),
                }
            }
        })
        .collect();
    // two formals must not share a name
    let formal: Vec<String> = formal.iter().enumerate().map(|(i, f)| if formal[..i].contains(f) { if kinds[i] { format!("T{i}") } else { format!("n{i}") } } else { f.clone() }).collect();
    let params: Vec<String> = kinds.iter().enumerate().map(|(i, t)| if *t { formal[i].clone() } else { format!("{} : {}", govs[i], formal[i]) }).collect();
    let mut members: Vec<String> = Vec::new();
    for (i, t) in kinds.iter().enumerate() {
        if *t {
            members.push(format!("x{i} <T{i}>"));
            members.push(format!("l{i} SEQUENCE OF <T{i}>"));
        } else {
            members.push(format!("y{i} [{}] INTEGER (0..<V{i}>)", 10 + i));
        }
    }
    // tags without IMPLICIT / EXPLICIT: the module default decides, in the instance as in the hand-expanded type
    members.push("fixed [7] BOOLEAN".into());
    members.push("nested [8] SEQUENCE { deep [0] NULL, more [1] OCTET STRING OPTIONAL }".into());
    // the values of all instances (needed up front: a constant of the module may be defined by reference to a constant
    // that is named like a formal parameter, and the template may use it: that reference is not the parameter)
    let all_vals: Vec<Vec<String>> = (0..n_inst)
        .map(|_| kinds.iter().map(|t| if *t { rng.pick(&["BOOLEAN", "INTEGER", "UTF8String", "NULL"]).to_string() } else { format!("{}", 1 + rng.below(250)) }).collect())
        .collect();
    let hidden_const: Option<(String, String)> = (0..n_params).find(|i| !kinds[*i] && formal[*i].starts_with("gk")).and_then(|i| {
        // formal[i] = gname(0, o) for some value parameter o of the first instance
        (0..n_params).find(|o| gname(0, *o) == formal[i]).map(|o| (formal[i].clone(), all_vals[0][o].clone()))
    });
    if hidden_const.is_some() {
        members.push("via [20] INTEGER (0..<CHAIN>)".to_string());
    }
    let body = format!("SEQUENCE {{ {} }}", members.join(", "));
    let chain_name = format!("ch{k}");
    let fill = |b: &str, with: &dyn Fn(usize) -> String| -> String {
        let mut b = b.to_string();
        for i in 0..n_params {
            b = b.replace(&format!("<T{i}>"), &with(i)).replace(&format!("<V{i}>"), &with(i));
        }
        b
    };
    let gov_defs = "Gov-Int ::= INTEGER\nUINT8 ::= INTEGER (0..255)\nN ::= INTEGER\nOCTET-COUNT ::= INTEGER (0..65535)\n";
    let mut sug = format!("{tpl} {{ {} }} ::= {}\n", params.join(", "), fill(&body, &|i| formal[i].clone()).replace("<CHAIN>", &chain_name));
    let mut exp = String::new();
    let mut consts = String::new();
    let mut targets = Vec::new();
    for j in 0..n_inst {
        let inst = spell(rng, "Inst", k * 10 + j, true);
        let vals: Vec<String> = all_vals[j].clone();
        let args: Vec<String> = (0..n_params)
            .map(|i| {
                if by_ref[j][i] {
                    consts.push_str(&format!("{} INTEGER ::= {}\n", gname(j, i), vals[i]));
                    gname(j, i)
                } else {
                    vals[i].clone()
                }
            })
            .collect();
        sug.push_str(&format!("{inst} ::= {tpl} {{ {} }}\n", args.join(", ")));
        exp.push_str(&format!("{inst} ::= {}\n", fill(&body, &|i| vals[i].clone()).replace("<CHAIN>", hidden_const.as_ref().map(|h| h.1.as_str()).unwrap_or("0"))));
        targets.push(inst);
    }
    if rng.chance(1, 2) {
        // template after its uses
        let mut lines: Vec<&str> = sug.lines().collect();
        let first = lines.remove(0);
        lines.push(first);
        sug = lines.join("\n") + "\n";
    }
    let header = *rng.pick(&["AUTOMATIC TAGS", "EXPLICIT TAGS", "IMPLICIT TAGS", "EXPLICIT TAGS EXTENSIBILITY IMPLIED"]);
    if let Some((target, _)) = &hidden_const {
        consts.push_str(&format!("{chain_name} INTEGER ::= {target}\n"));
    }
    let (sug, exp) = (format!("{sug}{consts}{gov_defs}"), format!("{exp}{consts}{gov_defs}"));
    let shadow = (0..n_params).any(|i| !kinds[i] && formal[i].starts_with("gk"));
    Pair { kind: format!("parameterized:{n_params}params{}", if shadow { ":formal-named-like-a-constant" } else { "" }), sugared: module_h("Sug", header, &sug), expanded: module_h("Sug", header, &exp), targets, env: vec![] }
}

fn gen_selection(rng: &mut Rng, k: usize) -> Pair {
    let cho = spell(rng, "Cho", k, true);
    let n_alt = 2 + rng.below(4);
    // alternatives may carry constraints that refer to a value or to named numbers of another type: the
    // selection type has to be replaced by the alternative as it is *after* those references were resolved
    let up = spell(rng, "upper", k, false);
    let lvl = spell(rng, "Lvl", k, true);
    let upv = 3 + rng.below(60);
    let support = format!("{up} INTEGER ::= {upv}\n{lvl} ::= INTEGER {{ lo(3), hi(5) }}\n");
    let pool: Vec<String> = vec![
        "INTEGER".into(), "BOOLEAN".into(), "UTF8String".into(), "NULL".into(), "OCTET STRING".into(), "INTEGER (0..7)".into(), "SEQUENCE OF BOOLEAN".into(),
        format!("INTEGER (0..{up})"), format!("{lvl} (lo..hi)"), format!("OCTET STRING (SIZE(1..{up}))"), format!("INTEGER ({up})"),
    ];
    let alt_types: Vec<String> = (0..n_alt).map(|_| rng.pick(&pool).to_string()).collect();
    let alts: Vec<String> = alt_types.iter().enumerate().map(|(i, t)| format!("alt{i} {t}")).collect();
    let choice = format!("{support}{cho} ::= CHOICE {{ {} }}\n", alts.join(", "));
    let pick = rng.below(n_alt);
    let sel = spell(rng, "Sel", k, true);
    let holder = spell(rng, "Hold", k, true);
    let form = rng.below(3);
    let (s, e) = if form == 0 {
        (format!("{sel} ::= alt{pick} < {cho}\n"), format!("{sel} ::= {}\n", alt_types[pick]))
    } else if form == 1 {
        // tagged, under every tagging default: the tag is implicit / explicit as it is for the selected alternative's type
        // (a selection type is not a CHOICE), as component and as alternative
        let t = &alt_types[pick];
        let sel_t = format!("alt{pick} < {cho}");
        let shape = |x: &str| format!("{sel} ::= SEQUENCE {{ p [0] {x}, q [1] IMPLICIT {x}, r [2] EXPLICIT {x}, s [APPLICATION 3] {x} OPTIONAL }}\n{holder} ::= CHOICE {{ p [0] {x}, q [1] IMPLICIT {x}, r [2] EXPLICIT {x} }}\n");
        let hdr = ["EXPLICIT TAGS", "IMPLICIT TAGS", "AUTOMATIC TAGS", ""][(k / 6) % 4];
        let before = rng.chance(1, 2);
        let sug = if before { format!("{choice}{}", shape(&sel_t)) } else { format!("{}{choice}", shape(&sel_t)) };
        return Pair { kind: "selection:tagged".into(), sugared: module_h("Sug", hdr, &sug), expanded: module_h("Sug", hdr, &format!("{choice}{}", shape(t))), targets: vec![sel, holder], env: vec![] };
    } else {
        (format!("{sel} ::= alt{pick} < {cho}\n{holder} ::= SEQUENCE {{ a alt{pick} < {cho}, b BOOLEAN }}\n"), format!("{sel} ::= {}\n{holder} ::= SEQUENCE {{ a {}, b BOOLEAN }}\n", alt_types[pick], alt_types[pick]))
    };
    let before = rng.chance(1, 2);
    let sug = if before { format!("{choice}{s}") } else { format!("{s}{choice}") };
    let mut targets = vec![sel];
    if s.contains(&holder) {
        targets.push(holder);
    }
    Pair { kind: "selection".into(), sugared: module("Sug", &sug), expanded: module("Sug", &format!("{choice}{e}")), targets, env: vec![] }
}

fn gen_class_field(rng: &mut Rng, k: usize) -> Pair {
    let cls = format!("{}-CLASS-{}", rng.pick(&["A", "M", "Z"]), ["ONE", "TWO", "THREE"][(k / 6) % 3]);
    let fixed_types = ["INTEGER", "BOOLEAN", "UTF8String", "OCTET STRING", "INTEGER (0..15)"];
    let n_fields = 1 + rng.below(3);
    let tys: Vec<&str> = (0..n_fields).map(|_| *rng.pick(&fixed_types)).collect();
    let mut fields: Vec<String> = tys.iter().enumerate().map(|(i, t)| format!("&fix{i} {t}{}", if i == 0 { " UNIQUE" } else { "" })).collect();
    fields.push("&Open OPTIONAL".into());
    let class = format!("{cls} ::= CLASS {{ {} }}\n", fields.join(", "));
    let pick = rng.below(n_fields);
    let tgt = spell(rng, "Fld", k, true);
    let holder = spell(rng, "Hld", k, true);
    // the holder: SEQUENCE, SET, CHOICE, and the field as the element of a list (member and top level), next to a
    // tagged, constrained neighbour
    // (k % 6 selects this family: the shape varies with k / 6)
    let shape = |a: &str, b: &str| match (k / 6) % 6 {
        0 => format!("SEQUENCE {{ h1 {a}, h2 {b} OPTIONAL }}"),
        1 => format!("SET {{ h1 {a}, h2 {b} OPTIONAL, n [5] INTEGER (0..7) }}"),
        2 => format!("CHOICE {{ h1 [1] {a}, h2 [2] {b}, n [5] INTEGER (0..7) }}"),
        3 => format!("SEQUENCE {{ l SEQUENCE OF {a}, m SET OF {b} }}"),
        4 => format!("SEQUENCE OF SEQUENCE {{ h1 {a} }}"),
        _ => format!("SET {{ inner [0] SET {{ h1 {a} }}, c CHOICE {{ x [3] {b}, y [4] NULL }} }}"),
    };
    let s = format!("{tgt} ::= {cls}.&fix{pick}\n{holder} ::= {}\n", shape(&format!("{cls}.&fix{pick}"), &format!("{cls}.&fix0")));
    let e = format!("{tgt} ::= {}\n{holder} ::= {}\n", tys[pick], shape(tys[pick], tys[0]));
    let before = rng.chance(1, 2);
    let sug = if before { format!("{class}{s}") } else { format!("{s}{class}") };
    Pair { kind: "class-field".into(), sugared: module("Sug", &sug), expanded: module("Sug", &format!("{class}{e}")), targets: vec![tgt, holder], env: vec![] }
}

/// Two notations meeting: the components copied by COMPONENTS OF (written last, the supported position) are
/// themselves given by a selection type, an instance of a parameterized type, a fixed-type class field or a
/// constraint with a value reference / named number; includer and included type named to be linked in either order.
fn gen_combination(rng: &mut Rng, k: usize) -> Pair {
    let cho = spell(rng, "Cho", k, true);
    let base = spell(rng, "Base", k, true);
    let incl = spell(rng, "Incl", k, true);
    let par = spell(rng, "Par", k, true);
    let up = spell(rng, "upper", k, false);
    let upv = 3 + rng.below(60);
    let cls = format!("{}-CLS-{}", rng.pick(&["A", "Z"]), k);
    let support = format!(
        "{cho} ::= CHOICE {{ a INTEGER, b BOOLEAN }}\n{up} INTEGER ::= {upv}\n{par} {{ T }} ::= SEQUENCE {{ p T }}\n{cls} ::= CLASS {{ &id INTEGER UNIQUE, &fix BOOLEAN }}\n"
    );
    // (sugared member, expanded member)
    let pool: Vec<(String, String)> = vec![
        (format!("x a < {cho}"), "x INTEGER".into()),
        (format!("x b < {cho}"), "x BOOLEAN".into()),
        (format!("n INTEGER (0..{up})"), format!("n INTEGER (0..{upv})")),
        (format!("s OCTET STRING (SIZE (1..{up}))"), format!("s OCTET STRING (SIZE (1..{upv}))")),
        (format!("f {cls}.&fix"), "f BOOLEAN".into()),
        (format!("i {cls}.&id"), "i INTEGER".into()),
        ("plain NULL".into(), "plain NULL".into()),
    ];
    let n = 1 + rng.below(3);
    let mut picked: Vec<(String, String)> = Vec::new();
    while picked.len() < n {
        let c = rng.pick(&pool).clone();
        if !picked.iter().any(|p| p.0.split(' ').next() == c.0.split(' ').next()) {
            picked.push(c);
        }
    }
    let sug_members: Vec<String> = picked.iter().map(|p| p.0.clone()).collect();
    let exp_members: Vec<String> = picked.iter().map(|p| p.1.clone()).collect();
    let (base_s, base_e) = if rng.chance(1, 4) {
        // the included type is an instance of a parameterized type
        (format!("{base} ::= {par} {{ BOOLEAN }}\n"), format!("{base} ::= SEQUENCE {{ p BOOLEAN }}\n"))
    } else {
        (format!("{base} ::= SEQUENCE {{ {} }}\n", sug_members.join(", ")), format!("{base} ::= SEQUENCE {{ {} }}\n", exp_members.join(", ")))
    };
    let copied = if base_s.contains(&par) { "p BOOLEAN".to_string() } else { exp_members.join(", ") };
    // a third of the time the notation stands in a version group, behind a named component of the group
    let grouped = (k / 6) % 3 == 2;
    let incl_s = if grouped { format!("{incl} ::= SEQUENCE {{ y BOOLEAN, ..., [[ g NULL, COMPONENTS OF {base} ]] }}\n") } else { format!("{incl} ::= SEQUENCE {{ y BOOLEAN, COMPONENTS OF {base} }}\n") };
    let incl_e = if grouped { format!("{incl} ::= SEQUENCE {{ y BOOLEAN, ..., [[ g NULL, {copied} ]] }}\n") } else { format!("{incl} ::= SEQUENCE {{ y BOOLEAN, {copied} }}\n") };
    let mut lines = vec![support.clone(), base_s.clone(), incl_s];
    if rng.chance(1, 2) {
        lines.reverse();
    }
    Pair {
        kind: if grouped { "combination:components-of-in-a-version-group-x-other-notation".into() } else { "combination:components-of-x-other-notation".into() },
        sugared: module("Sug", &lines.concat()),
        expanded: module("Sug", &format!("{support}{base_e}{incl_e}")),
        targets: vec![incl],
        env: vec![],
    }
}

pub fn gen_pairs(cfg: &RunCfg) -> Vec<Pair> {
    let mut rng = Rng::new(cfg.seed ^ 0xC09);
    let n = cfg.budget(400, 5000);
    (0..n)
        .map(|k| match k % 6 {
            5 => gen_combination(&mut rng, k),
            0 => gen_value_refs(&mut rng, k),
            1 => gen_components_of(&mut rng, k),
            2 => gen_parameterized(&mut rng, k),
            3 => gen_selection(&mut rng, k),
            _ => gen_class_field(&mut rng, k),
        })
        .collect()
}

/// items of the first module belonging to a definition: primary item, impls, default fns, nested types
fn items_of(items: &[(String, String)], name: &str) -> Vec<String> {
    let rn = name.replace('-', "_");
    items
        .iter()
        .filter(|(id, _)| {
            let id = id.strip_prefix("impl ").unwrap_or(id);
            id == rn || id.strip_prefix("Anonymous").map(|r| r == rn).unwrap_or(false) || id.starts_with(&format!("{rn}")) && id.len() > rn.len() && !id[rn.len()..].starts_with(|c: char| c.is_ascii_digit())
                || id.to_lowercase().starts_with(&format!("{}_", rn.to_lowercase()))
        })
        .map(|(_, t)| t.clone())
        .collect()
}

fn fields_of(items: &[(String, String)], name: &str) -> Option<Vec<String>> {
    let text = &items.iter().find(|(id, _)| id == name)?.1;
    let file: syn::ItemStruct = syn::parse_str(text).ok()?;
    Some(file.fields.iter().filter_map(|f| f.ident.as_ref().map(|i| i.to_string())).collect())
}

pub fn run(cfg: &RunCfg) -> Report {
    let mut rep = Report::new(
        "C09",
        "pairs (sugared module, hand-expanded module): value references through chains of 1..4 and named numbers (own type and parent type) in value / SIZE constraints at top level and in components; COMPONENTS OF in environments of 2..5 SEQUENCEs (tail position and anywhere, with and without extension markers, chains, occasional cycles); parameterized types with 1..3 type / value parameters instantiated 1..3 times; selection types at top level and in a component, of alternatives whose constraints refer to values / named numbers; fixed-type class field types at top level and in components; combinations (the components copied by COMPONENTS OF are given by selection types / value references / class fields / an instance of a parameterized type). Referenced names are spelled to sort before and after the referencing name and definitions are written before or after their use. Oracle: the items of every target definition are token-identical in the two compilations. Model tie (COMPONENTS OF): field order of the generated struct = members of the Lean linker model; spec = X.680 25.5 expansion",
    );
    let pairs: Vec<Pair> = if let Some(r) = &cfg.replay {
        vec![Pair::from_json(r.get("case").unwrap_or(r))]
    } else {
        let mut v: Vec<Pair> = load_corpus("C09").iter().map(Pair::from_json).collect();
        v.extend(gen_pairs(cfg));
        v
    };
    let mut reqs = Vec::new();
    let mut meta = Vec::new();
    for (pi, p) in pairs.iter().enumerate() {
        rep.evaluations += 1;
        rep.count(&format!("kind:{}", p.kind.split(':').next().unwrap_or("")));
        rep.distinct.insert(format!("{}|{}", p.kind, p.sugared.len()));
        let s = compile_rasn(&[p.sugared.clone()]);
        let e = compile_rasn(&[p.expanded.clone()]);
        let (Outcome::Ok { generated: gs, warnings: ws }, Outcome::Ok { generated: ge, warnings: we }) = (&s, &e) else {
            match (&s, &e) {
                (_, Outcome::Err(_) | Outcome::Panic(_)) => rep.count("expanded-form-does-not-compile(not judged)"),
                (Outcome::Err(x), _) => rep.unsat("", false, json!({"why": format!("the sugared module fails ({x}) while its hand expansion compiles"), "case": p.to_json()})),
                (Outcome::Panic(x), _) => rep.unsat("", false, json!({"why": format!("the sugared module panics ({x}) while its hand expansion compiles"), "case": p.to_json()})),
                _ => {}
            }
            continue;
        };
        let (Ok(ms), Ok(me)) = (module_items(gs), module_items(ge)) else {
            rep.harness_errors.push("generated text does not parse".into());
            continue;
        };
        let (is, ie) = (ms.first().map(|m| m.1.clone()).unwrap_or_default(), me.first().map(|m| m.1.clone()).unwrap_or_default());
        for t in &p.targets {
            let (a, b) = (items_of(&is, t), items_of(&ie, t));
            if a != b {
                let k = a.iter().zip(b.iter()).take_while(|(x, y)| x == y).count();
                let why = format!(
                    "{}: `{t}` differs from its hand-expanded form: `{}` vs `{}`{}",
                    p.kind,
                    a.get(k).map(|x| x.chars().take(260).collect::<String>()).unwrap_or_else(|| "(missing)".into()),
                    b.get(k).map(|x| x.chars().take(260).collect::<String>()).unwrap_or_else(|| "(missing)".into()),
                    if ws.len() != we.len() { format!(" (warnings: {:?})", ws.iter().take(2).collect::<Vec<_>>()) } else { String::new() }
                );
                if p.kind.starts_with("parameterized") && p.sugared.contains("NULL") && ws.iter().any(|w| w.contains("Mismatching argument for parameter")) {
                    // `NULL` as an actual parameter is read as the NULL value
                    rep.unsat("C09_NULL_type_argument_read_as_value", true, json!({"why": why, "case": p.to_json()}));
                } else if p.kind == "components-of" {
                    // class and agreement are decided with the model below
                    meta.push((pi, t.clone(), fields_of(&is, &t.replace('-', "_")), Some(why)));
                } else {
                    rep.unsat("", false, json!({"why": why, "case": p.to_json()}));
                }
            } else if p.kind == "components-of" {
                meta.push((pi, t.clone(), fields_of(&is, &t.replace('-', "_")), None));
            }
            if p.kind == "components-of" {
                let env_sx = sx_list(p.env.iter().map(|(n, r, e)| {
                    let items = |v: &Vec<(bool, String)>| sx_list(v.iter().map(|(of, x)| format!("( {} {} )", if *of { "o" } else { "c" }, hex(x))));
                    format!("( {} {} {} )", hex(n), items(r), e.as_ref().map(items).unwrap_or_else(|| "none".into()))
                }));
                reqs.push(format!("c09 {env_sx} {}", hex(t)));
            }
        }
    }
    match run_driver(&reqs) {
        Ok(ans) => {
            for (a, (pi, t, fields, why)) in ans.iter().zip(meta.iter()) {
                let p = &pairs[*pi];
                let parts: Vec<&str> = a.split('|').collect();
                if parts.len() != 4 {
                    rep.harness_errors.push(format!("driver answer `{a}`"));
                    continue;
                }
                let split = |s: &str| -> Vec<String> { if s.is_empty() { vec![] } else { s.split(',').map(|x| x.replace('-', "_")).collect() } };
                let (model_members, model_root, spec_root) = (split(parts[0]), split(parts[2]), split(parts[3]));
                let agrees = fields.as_ref().map(|f| f == &model_members).unwrap_or(false);
                if !agrees {
                    rep.disagree(json!({"difference": format!("`{t}`: the linker model gives members {model_members:?}, the generated struct has {fields:?}"), "case": p.to_json()}));
                }
                let (_, root, ext) = p.env.iter().find(|e| &e.0 == t).unwrap();
                let has_of = root.iter().any(|x| x.0);
                if let Some(w) = why {
                    let tail = {
                        let first_of = root.iter().position(|x| x.0).unwrap_or(root.len());
                        root[first_of..].iter().all(|x| x.0)
                    };
                    let class = if has_of && ext.is_some() {
                        "C09_components_of_next_to_extension_marker"
                    } else if has_of && !tail {
                        "C09_components_of_appended_at_the_end"
                    } else if model_root != spec_root {
                        // inherited through a referenced type that is itself outside the domain
                        "C09_components_of_appended_at_the_end"
                    } else {
                        ""
                    };
                    rep.unsat(class, agrees && (model_root != spec_root || model_members != spec_root), json!({"why": w, "case": p.to_json()}));
                } else if model_root != spec_root && ext.is_none() {
                    rep.count("components-of:model-differs-from-spec-but-bindings-equal");
                }
            }
        }
        Err(e) => rep.harness_errors.push(e),
    }
    if cfg.replay.is_none() || cfg.replay.as_ref().is_some_and(|r| r.get("case").unwrap_or(r).get("value_params").is_some()) {
        value_parameter_scoping(cfg, &mut rep);
    }
    rep
}

/// Function-level tie of the Lean model `Link/Params` (scoping of value parameters): modules of constants (literals and
/// references to other constants, chains up to three long), one template with 1..3 value parameters whose names are
/// fresh or coincide with names of constants, a body whose bounds refer to formals and to constants, one instance whose
/// arguments are literals or references to constants; names are spelled so that the template is linked before or after
/// its instance. Observed: the upper bounds of the members of the instance. Compared with the model (`instantiate`) and
/// judged by the spec (`expanded`: simultaneous substitution, then an ordinary definition).
fn value_parameter_scoping(cfg: &RunCfg, rep: &mut Report) {
    let mut rng = Rng::new(cfg.seed ^ 0x9A7A);
    let only = cfg.replay.as_ref().map(|r| r.get("case").unwrap_or(r)["value_params"].clone());
    let n = if only.is_some() { 1 } else { cfg.budget(150, 3000) };
    let mut reqs = Vec::new();
    let mut observed = Vec::new();
    let mut descr = Vec::new();
    for it in 0..n {
        // (name, literal | reference)
        let (consts, formals, body, args, tpl_name, inst_name): (Vec<(String, Result<i64, String>)>, Vec<String>, Vec<Result<i64, String>>, Vec<Result<i64, String>>, String, String) = if let Some(o) = &only {
            let val = |v: &serde_json::Value| -> Result<i64, String> { v.as_i64().map(Ok).unwrap_or_else(|| Err(v.as_str().unwrap_or("").to_string())) };
            (
                o["consts"].as_array().map(|a| a.iter().map(|d| (d[0].as_str().unwrap_or("").to_string(), val(&d[1]))).collect()).unwrap_or_default(),
                o["formals"].as_array().map(|a| a.iter().map(|x| x.as_str().unwrap_or("").to_string()).collect()).unwrap_or_default(),
                o["body"].as_array().map(|a| a.iter().map(val).collect()).unwrap_or_default(),
                o["args"].as_array().map(|a| a.iter().map(val).collect()).unwrap_or_default(),
                o["template"].as_str().unwrap_or("Tpl").to_string(),
                o["instance"].as_str().unwrap_or("Inst").to_string(),
            )
        } else {
            let n_c = 1 + rng.below(5);
            let mut consts: Vec<(String, Result<i64, String>)> = Vec::new();
            for c in 0..n_c {
                let name = format!("{}c{it}x{c}", if rng.chance(1, 2) { "a" } else { "z" });
                // a reference only to an earlier constant: no cycles, chains up to the number of constants
                let v = if c > 0 && rng.chance(1, 2) { Err(consts[rng.below(c)].0.clone()) } else { Ok(1 + rng.below(200) as i64) };
                consts.push((name, v));
            }
            let n_f = 1 + rng.below(3);
            let mut formals: Vec<String> = Vec::new();
            for f in 0..n_f {
                let name = if rng.chance(1, 2) { rng.pick(&consts).0.clone() } else { format!("p{f}") };
                formals.push(if formals.contains(&name) { format!("p{f}") } else { name });
            }
            let mut body: Vec<Result<i64, String>> = Vec::new();
            for _ in 0..1 + rng.below(4) {
                body.push(match rng.below(5) {
                    0 => Ok(1 + rng.below(200) as i64),
                    1 | 2 => Err(rng.pick(&formals).clone()),
                    _ => Err(rng.pick(&consts).0.clone()),
                });
            }
            let args: Vec<Result<i64, String>> = (0..n_f).map(|_| if rng.chance(1, 2) { Err(rng.pick(&consts).0.clone()) } else { Ok(1 + rng.below(200) as i64) }).collect();
            let (t, i) = if rng.chance(1, 2) { (format!("ATpl{it}"), format!("ZInst{it}")) } else { (format!("ZTpl{it}"), format!("AInst{it}")) };
            (consts, formals, body, args, t, i)
        };
        let show = |v: &Result<i64, String>| match v { Ok(n) => n.to_string(), Err(x) => x.clone() };
        let mut src = String::from("Par-Mod DEFINITIONS AUTOMATIC TAGS ::= BEGIN\n");
        for (name, v) in &consts {
            src.push_str(&format!("{name} INTEGER ::= {}\n", show(v)));
        }
        let members: Vec<String> = body.iter().enumerate().map(|(k, b)| format!("y{k} INTEGER (0..{})", show(b))).collect();
        src.push_str(&format!("{tpl_name} {{ {} }} ::= SEQUENCE {{ {} }}\n", formals.iter().map(|f| format!("INTEGER : {f}")).collect::<Vec<_>>().join(", "), members.join(", ")));
        src.push_str(&format!("{inst_name} ::= {tpl_name} {{ {} }}\nEND\n", args.iter().map(show).collect::<Vec<_>>().join(", ")));
        rep.evaluations += 1;
        rep.count("value-parameter-scoping");
        if formals.iter().any(|f| consts.iter().any(|c| &c.0 == f)) {
            rep.count("value-parameter-scoping:formal-named-like-a-constant");
        }
        let case = json!({"value_params": {
            "consts": consts.iter().map(|(n, v)| json!([n, match v { Ok(k) => json!(k), Err(x) => json!(x) }])).collect::<Vec<_>>(),
            "formals": formals, "body": body.iter().map(|v| match v { Ok(k) => json!(k), Err(x) => json!(x) }).collect::<Vec<_>>(),
            "args": args.iter().map(|v| match v { Ok(k) => json!(k), Err(x) => json!(x) }).collect::<Vec<_>>(),
            "template": tpl_name, "instance": inst_name}, "source": src});
        let obs: Vec<String> = match compile_rasn(&[src.clone()]) {
            Outcome::Ok { generated, .. } => match crate::proj::project(&generated) {
                Ok(ms) => match ms.iter().find_map(|m| m.item(&inst_name)).map(|i| &i.kind) {
                    Some(crate::proj::ItemKind::Struct { fields, .. }) => fields
                        .iter()
                        .map(|f| match f.attrs.get("value") {
                            // "0..=K"
                            Some(v) => v.trim_matches('"').rsplit("..=").next().filter(|_| v.contains("..=")).map(|k| k.to_string()).unwrap_or_else(|| format!("?{v}")),
                            None => "?".to_string(),
                        })
                        .collect(),
                    _ => {
                        rep.unsat("", false, json!({"why": "the instance is not generated as a struct", "case": case}));
                        continue;
                    }
                },
                Err(e) => {
                    rep.harness_errors.push(format!("projection failed: {e}"));
                    continue;
                }
            },
            Outcome::Err(e) => {
                rep.unsat("", false, json!({"why": format!("the module does not compile: {e}"), "case": case}));
                continue;
            }
            Outcome::Panic(p) => {
                rep.unsat("", false, json!({"why": format!("panic: {p}"), "case": case}));
                continue;
            }
        };
        let sx = |v: &Result<i64, String>| match v { Ok(n) => format!("( lit {n} )"), Err(x) => format!("( ref {} )", hex(x)) };
        reqs.push(format!(
            "c09params {} {} {} {}",
            sx_list(consts.iter().map(|(n, v)| format!("( {} {} )", hex(n), sx(v)))),
            sx_list(formals.iter().map(|f| hex(f))),
            sx_list(body.iter().map(sx)),
            sx_list(args.iter().map(sx))
        ));
        observed.push(obs.join(" "));
        descr.push(case);
    }
    match run_driver(&reqs) {
        Ok(ans) => {
            for (k, a) in ans.iter().enumerate() {
                let parts: Vec<&str> = a.split(" | ").collect();
                if parts.len() != 3 {
                    rep.harness_errors.push(format!("driver answer `{a}`"));
                    continue;
                }
                let agrees = parts[0] == observed[k];
                if !agrees {
                    rep.disagree(json!({"case": descr[k].clone(), "model": parts[0], "impl": observed[k]}));
                }
                if parts[2] == "t" && parts[1] != observed[k] {
                    rep.unsat("", agrees, json!({"why": format!("the bounds of the instance are [{}], those of the hand-expanded definition [{}]", observed[k], parts[1]), "case": descr[k].clone()}));
                }
            }
        }
        Err(e) => rep.harness_errors.push(e),
    }
}

//! C14 correspondence + oracle: ENUMERATED numbering.
use crate::proj::{self, ItemKind};
use crate::report::{Report, RunCfg};
use crate::util::*;
use serde_json::json;

#[derive(Clone, Debug)]
pub struct Case {
    pub root: Vec<Option<i128>>,
    /// None = no extension marker
    pub adds: Option<Vec<Option<i128>>>,
}

impl Case {
    pub fn asn(&self, id: usize) -> String {
        let item = |prefix: &str, i: usize, n: &Option<i128>| match n {
            None => format!("{prefix}{i}"),
            Some(v) => format!("{prefix}{i}({v})"),
        };
        let mut parts: Vec<String> = self.root.iter().enumerate().map(|(i, n)| item("r", i, n)).collect();
        if let Some(adds) = &self.adds {
            parts.push("...".into());
            parts.extend(adds.iter().enumerate().map(|(i, n)| item("x", i, n)));
        }
        format!("E{id} ::= ENUMERATED {{ {} }}", parts.join(", "))
    }
    fn sx(items: &[Option<i128>]) -> String {
        sx_list(items.iter().map(|n| sx_opt(n)))
    }
    fn key(&self) -> String {
        format!("{:?}|{:?}", self.root, self.adds)
    }
}

fn observe(m: &proj::ModuleFacts, c: &Case, id: usize) -> Result<(Vec<i128>, Vec<i128>), String> {
    match m.item(&format!("E{id}")).map(|i| &i.kind) {
        Some(ItemKind::Enum { variants }) => {
            let n_adds = c.adds.as_ref().map_or(0, |a| a.len());
            if variants.len() != c.root.len() + n_adds {
                return Err(format!("E{id}: {} variants for {} items", variants.len(), c.root.len() + n_adds));
            }
            let mut nums = Vec::new();
            for (i, v) in variants.iter().enumerate() {
                let want = if i < c.root.len() { format!("r{i}") } else { format!("x{}", i - c.root.len()) };
                if v.name != want {
                    return Err(format!("E{id}: variant {i} is `{}`, expected `{want}` (order/name changed)", v.name));
                }
                let d = v.discriminant.as_ref().ok_or(format!("E{id}: variant {} has no discriminant", v.name))?;
                nums.push(d.replace(' ', "").parse::<i128>().map_err(|e| format!("E{id}: discriminant `{d}`: {e}"))?);
            }
            let adds = nums.split_off(c.root.len());
            Ok((nums, adds))
        }
        other => Err(format!("E{id}: expected enum, got {other:?}")),
    }
}

fn all_lists(max_len: usize, alphabet: &[Option<i128>]) -> Vec<Vec<Option<i128>>> {
    let mut out = vec![vec![]];
    let mut frontier = vec![vec![]];
    for _ in 0..max_len {
        let mut next = Vec::new();
        for l in &frontier {
            for a in alphabet {
                let mut l2: Vec<Option<i128>> = l.clone();
                l2.push(*a);
                next.push(l2);
            }
        }
        out.extend(next.iter().cloned());
        frontier = next;
    }
    out
}

pub fn gen_cases(cfg: &RunCfg) -> Vec<Case> {
    let alphabet: Vec<Option<i128>> = vec![None, Some(-1), Some(0), Some(1), Some(2), Some(5)];
    let mut cases: Vec<Case> = load_corpus("C14").iter().filter_map(case_from_json).collect();
    // exhaustive small slice
    let (rmax, amax) = if cfg.thorough { (4, 3) } else { (3, 2) };
    let roots = all_lists(rmax, &alphabet);
    let adds = all_lists(amax, &alphabet);
    for r in &roots {
        if r.is_empty() {
            continue; // `ENUMERATED { }` / `{ ... }` are not legal notation
        }
        cases.push(Case { root: r.clone(), adds: None });
        for a in &adds {
            cases.push(Case { root: r.clone(), adds: Some(a.clone()) });
        }
    }
    // explicit numbers at the edges of the machine integers (the lexer reads them as i128)
    let edges: [i128; 12] = [i128::MIN, i128::MIN + 1, -(1i128 << 64), -(1i128 << 63) - 1, -(1i128 << 63), -(1i128 << 31) - 1, (1i128 << 31), (1i128 << 63) - 1, (1i128 << 63), (1i128 << 64), i128::MAX - 1, i128::MAX];
    for b in edges {
        cases.push(Case { root: vec![Some(b)], adds: None });
        cases.push(Case { root: vec![None, Some(b)], adds: None });
        cases.push(Case { root: vec![Some(b), None, None], adds: Some(vec![]) });
        if b > 0 {
            cases.push(Case { root: vec![None, Some(1)], adds: Some(vec![Some(b)]) });
            // (no identifier-only addition behind a huge one: the executable X.680 checker walks every smaller candidate)
        } else {
            cases.push(Case { root: vec![Some(b), Some(b + 1)], adds: Some(vec![None]) });
        }
    }
    // seeded random larger shapes
    let mut rng = Rng::new(cfg.seed ^ 0xC14);
    let n = cfg.budget(3000, 60000);
    let wide: Vec<Option<i128>> = vec![None, None, None, Some(-3), Some(-1), Some(0), Some(1), Some(2), Some(3), Some(4), Some(5), Some(7), Some(9), Some(12), Some(100)];
    // legal by construction (the generator, not the oracle, tracks which numbers are taken)
    for _ in 0..n {
        let rl = 1 + rng.below(8);
        let mut pool: Vec<i128> = vec![-3, -1, 0, 1, 2, 3, 4, 5, 7, 9, 12, 100];
        let mut root: Vec<Option<i128>> = Vec::new();
        for _ in 0..rl {
            if rng.chance(1, 2) && !pool.is_empty() {
                let k = rng.below(pool.len());
                root.push(Some(pool.remove(k)));
            } else {
                root.push(None);
            }
        }
        // numbers the root ends up with (generator-side bookkeeping only)
        let explicit: Vec<i128> = root.iter().flatten().cloned().collect();
        let mut taken = explicit.clone();
        let mut next = 0i128;
        for r in &root {
            if r.is_none() {
                while explicit.contains(&next) {
                    next += 1;
                }
                taken.push(next);
                next += 1;
            }
        }
        let adds = if rng.chance(3, 4) {
            let al = rng.below(6);
            let mut last: Option<i128> = None;
            let mut v = Vec::new();
            for _ in 0..al {
                let mut cand = last.map_or(0, |l| (l + 1).max(0)) + rng.below(3) as i128;
                if last.is_none() && rng.chance(1, 6) {
                    cand = -2 - rng.below(3) as i128;
                }
                while taken.contains(&cand) {
                    cand += 1;
                }
                if rng.chance(1, 2) {
                    v.push(Some(cand));
                    last = Some(last.map_or(cand, |l| l.max(cand)));
                } else {
                    // identifier only: the compiler decides; keep bookkeeping conservative
                    let mut k = last.map_or(0, |l| (l + 1).max(0));
                    while taken.contains(&k) {
                        k += 1;
                    }
                    v.push(None);
                    last = Some(last.map_or(k, |l| l.max(k)));
                }
            }
            Some(v)
        } else {
            None
        };
        cases.push(Case { root, adds });
    }
    for _ in 0..n / 4 {
        let rl = 1 + rng.below(8);
        let root: Vec<Option<i128>> = (0..rl).map(|_| *rng.pick(&wide)).collect();
        let adds = if rng.chance(2, 3) {
            let al = rng.below(6);
            Some((0..al).map(|_| *rng.pick(&wide)).collect())
        } else {
            None
        };
        cases.push(Case { root, adds });
    }
    cases
}

pub fn run(cfg: &RunCfg) -> Report {
    let mut rep = Report::new(
        "C14",
        "all ENUMERATED shapes with ≤3 (thorough ≤4) root items and ≤2 (thorough ≤3) additions, each item identifier-only or numbered from {-1,0,1,2,5}, with/without marker, plus seeded random shapes up to 8+5 items; a case is non-trivial when it compiled and all discriminants were read back in order; only legal notation (X.680 20.3/20.4, decided in Lean) is judged by the oracle, every case by the model correspondence",
    );
    let cases: Vec<Case> = if let Some(r) = &cfg.replay { vec![case_from_json(r).expect("bad replay case")] } else { gen_cases(cfg) };
    rep.exhaustive = cfg.replay.is_none();
    let rcfg = rasn_compiler::prelude::RasnConfig::default();
    let render = |idx: &[usize]| {
        vec![format!(
            "C14-Mod DEFINITIONS AUTOMATIC TAGS ::= BEGIN\n{}\nEND\n",
            idx.iter().map(|i| cases[*i].asn(*i)).collect::<Vec<_>>().join("\n")
        )]
    };
    let groups = batch_compile(cases.len(), 400, &render, &rcfg);
    let mut requests = Vec::new();
    let mut meta = Vec::new();
    let mut err_requests: Vec<String> = Vec::new();
    let mut err_meta: Vec<(usize, String)> = Vec::new();
    for (idx, outcome) in groups {
        match outcome {
            Outcome::Ok { generated, .. } => {
                let mods = match proj::project(&generated) {
                    Ok(m) => m,
                    Err(e) => {
                        // duplicate discriminants still parse with syn; a parse failure is a harness matter
                        rep.harness_errors.push(format!("projection failed: {e}"));
                        continue;
                    }
                };
                let Some(m) = mods.first() else { continue };
                for i in idx {
                    rep.evaluations += 1;
                    let c = &cases[i];
                    match observe(m, c, i) {
                        Ok((r, a)) => {
                            rep.distinct.insert(c.key());
                            rep.count(&format!("root-len:{}", c.root.len()));
                            rep.count(match &c.adds { None => "no-marker", Some(a) if a.is_empty() => "marker-no-additions", _ => "marker+additions" });
                            let mixed = c.root.iter().any(|x| x.is_none()) && c.root.iter().any(|x| x.is_some());
                            if mixed {
                                rep.count("root-mixed");
                            }
                            requests.push(format!(
                                "c14 {} {} {} {}",
                                Case::sx(&c.root),
                                Case::sx(c.adds.as_deref().unwrap_or(&[])),
                                sx_list(r.iter().map(|v| v.to_string())),
                                sx_list(a.iter().map(|v| v.to_string()))
                            ));
                            meta.push((i, r, a));
                        }
                        Err(e) => {
                            rep.count("unobserved");
                            rep.unsat("", false, json!({"why": e, "asn1": c.asn(i), "root": c.root.iter().map(|x| x.map(|v| v.to_string())).collect::<Vec<_>>(),
                                "adds": c.adds.as_ref().map(|a| a.iter().map(|x| x.map(|v| v.to_string())).collect::<Vec<_>>())}));
                        }
                    }
                }
            }
            Outcome::Err(e) => {
                rep.evaluations += 1;
                rep.count("compile-err");
                rep.sample(json!({"compile_err": e, "asn1": cases[idx[0]].asn(idx[0])}));
                // legal notation whose numbers fit the lexer's integers has to compile (decided in Lean)
                for i in idx {
                    let c = &cases[i];
                    err_requests.push(format!("c14legal {} {}", Case::sx(&c.root), Case::sx(c.adds.as_deref().unwrap_or(&[]))));
                    err_meta.push((i, e.clone()));
                }
            }
            Outcome::Panic(p) => {
                rep.evaluations += 1;
                rep.count("compile-panic");
                rep.harness_errors.push(format!("panic on {}: {p}", cases[idx[0]].asn(idx[0])));
            }
        }
    }
    match run_driver(&err_requests) {
        Ok(ans) => {
            for (k, a) in ans.iter().enumerate() {
                let (i, e) = &err_meta[k];
                let c = &cases[*i];
                if a == "t" {
                    rep.unsat("", false, json!({"why": format!("a legal enumeration does not compile: {e}"), "asn1": c.asn(*i), "root": c.root.iter().map(|x| x.map(|v| v.to_string())).collect::<Vec<_>>(),
                        "adds": c.adds.as_ref().map(|a| a.iter().map(|x| x.map(|v| v.to_string())).collect::<Vec<_>>())}));
                } else if a != "f" {
                    rep.harness_errors.push(format!("driver answer `{a}`"));
                }
            }
        }
        Err(e) => rep.harness_errors.push(e),
    }
    let answers = match run_driver(&requests) {
        Ok(a) => a,
        Err(e) => {
            rep.harness_errors.push(e);
            return rep;
        }
    };
    for (k, ans) in answers.iter().enumerate() {
        let (i, r, a) = &meta[k];
        let c = &cases[*i];
        let parts: Vec<&str> = ans.splitn(4, ' ').collect();
        if parts.len() != 4 {
            rep.harness_errors.push(format!("driver answer `{ans}` for `{}`", requests[k]));
            continue;
        }
        let (agree, spec_ok, valid) = (parts[0] == "t", parts[1] == "t", parts[2] == "t");
        let case_json = json!({"asn1": c.asn(*i),
            "root": c.root.iter().map(|x| x.map(|v| v.to_string())).collect::<Vec<_>>(),
            "adds": c.adds.as_ref().map(|a| a.iter().map(|x| x.map(|v| v.to_string())).collect::<Vec<_>>()),
            "observed_root": r.iter().map(|v| v.to_string()).collect::<Vec<_>>(), "observed_adds": a.iter().map(|v| v.to_string()).collect::<Vec<_>>(),
            "model": parts[3]});
        if k % 1499 == 0 {
            rep.sample(case_json.clone());
        }
        rep.count(if valid { "legal-notation" } else { "illegal-notation(not judged by oracle)" });
        if !agree && valid {
            rep.disagree(case_json.clone());
        } else if !agree {
            // illegal notation is outside the property's quantifier: counted, not an alarm
            rep.count("model-differs-on-illegal-notation");
        }
        if valid && !spec_ok {
            rep.unsat("", agree, json!({"why": "numbers differ from the ones X.680 §20.5/20.6 assign", "case": case_json}));
        }
    }
    rep
}

fn case_from_json(v: &serde_json::Value) -> Option<Case> {
    let v = v.get("case").unwrap_or(v);
    let list = |x: &serde_json::Value| -> Option<Vec<Option<i128>>> {
        x.as_array()?.iter().map(|e| if e.is_null() { Some(None) } else { e.as_str()?.parse().ok().map(Some) }).collect()
    };
    let root = list(&v["root"])?;
    let adds = if v["adds"].is_null() { None } else { Some(list(&v["adds"])?) };
    Some(Case { root, adds })
}

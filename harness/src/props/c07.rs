//! C07: value assignments and DEFAULTs denote the source abstract value.
use crate::proj::{self, ItemKind, ModuleFacts};
use crate::report::{Report, RunCfg};
use crate::util::*;
use serde_json::json;
use std::collections::BTreeMap;

// ---- symbolic evaluation of generated initialisers into abstract values (s-expressions) -----------------

fn unknown(e: &syn::Expr) -> String {
    format!("( unknown {} )", hex(&proj::ts(e)))
}

fn int_lit(e: &syn::Expr) -> Option<i128> {
    match e {
        syn::Expr::Lit(l) => match &l.lit {
            syn::Lit::Int(i) => i.base10_digits().parse::<i128>().ok().or_else(|| {
                // 170141183460469231731687303715884105728 does not fit i128 before negation
                None
            }),
            _ => None,
        },
        syn::Expr::Unary(u) if matches!(u.op, syn::UnOp::Neg(_)) => match &*u.expr {
            syn::Expr::Lit(l) => match &l.lit {
                syn::Lit::Int(i) => format!("-{}", i.base10_digits()).parse::<i128>().ok(),
                _ => None,
            },
            _ => None,
        },
        syn::Expr::Paren(p) => int_lit(&p.expr),
        syn::Expr::Group(g) => int_lit(&g.expr),
        _ => None,
    }
}

fn path_str(p: &syn::Path) -> String {
    p.segments.iter().map(|s| s.ident.to_string()).collect::<Vec<_>>().join("::")
}

pub struct Env<'a> {
    /// other constants of the module: name -> initialiser
    pub consts: &'a BTreeMap<String, syn::Expr>,
    /// enum item names (CHOICE / ENUMERATED)
    pub enums: &'a BTreeMap<String, bool>, // name -> is_choice
    pub depth: usize,
}

pub fn eval(e: &syn::Expr, env: &Env) -> String {
    use syn::Expr;
    if env.depth > 12 {
        return unknown(e);
    }
    if let Some(n) = int_lit(e) {
        return format!("( int {n} )");
    }
    match e {
        Expr::Paren(p) => eval(&p.expr, env),
        Expr::Group(g) => eval(&g.expr, env),
        Expr::Reference(r) => eval(&r.expr, env),
        Expr::Unary(u) if matches!(u.op, syn::UnOp::Deref(_)) => eval(&u.expr, env),
        Expr::Lit(l) => match &l.lit {
            syn::Lit::Bool(b) => format!("( bool {} )", sx_bool(b.value)),
            syn::Lit::Str(s) => format!("( str {} )", hex(&s.value())),
            _ => unknown(e),
        },
        Expr::Tuple(t) if t.elems.is_empty() => "null".into(),
        Expr::Closure(c) => eval(&c.body, env),
        Expr::Block(b) if b.block.stmts.len() == 1 => match &b.block.stmts[0] {
            syn::Stmt::Expr(x, _) => eval(x, env),
            _ => unknown(e),
        },
        Expr::Macro(m) => {
            let name = path_str(&m.mac.path);
            if name.ends_with("vec") {
                match m.mac.parse_body_with(syn::punctuated::Punctuated::<Expr, syn::Token![,]>::parse_terminated) {
                    Ok(items) => sx_list_s("list", items.iter().map(|x| eval(x, env))),
                    Err(_) => unknown(e),
                }
            } else {
                unknown(e)
            }
        }
        Expr::Path(p) => {
            let s = path_str(&p.path);
            if p.path.segments.len() == 2 {
                let ty = p.path.segments[0].ident.to_string();
                if env.enums.contains_key(&ty) {
                    return format!("( enum {} )", hex(&p.path.segments[1].ident.to_string()));
                }
            }
            if let Some(init) = env.consts.get(&s) {
                let env2 = Env { consts: env.consts, enums: env.enums, depth: env.depth + 1 };
                return eval(init, &env2);
            }
            unknown(e)
        }
        Expr::MethodCall(mc) => {
            let m = mc.method.to_string();
            match m.as_str() {
                "unwrap" | "to_owned" | "clone" | "into" | "to_string" | "expect" | "parse" => eval(&mc.receiver, env),
                "collect" => match &*mc.receiver {
                    // [true, false].into_iter().collect()
                    Expr::MethodCall(inner) if inner.method == "into_iter" => match &*inner.receiver {
                        Expr::Array(a) => {
                            let mut bits = String::from("x");
                            for el in &a.elems {
                                match el {
                                    Expr::Lit(l) => match &l.lit {
                                        syn::Lit::Bool(b) => bits.push(if b.value { '1' } else { '0' }),
                                        _ => return unknown(e),
                                    },
                                    _ => return unknown(e),
                                }
                            }
                            format!("( bits {bits} )")
                        }
                        _ => unknown(e),
                    },
                    _ => unknown(e),
                },
                "concat" => {
                    // Oid::new(&[&***O1, &[7u32]].concat())
                    let mut arcs: Vec<String> = Vec::new();
                    let recv: &Expr = match &*mc.receiver {
                        Expr::Reference(r) => &r.expr,
                        other => other,
                    };
                    {
                        if let Expr::Array(a) = recv {
                            for part in &a.elems {
                                let v = eval(part, env);
                                if let Some(rest) = v.strip_prefix("( oid ( ") {
                                    arcs.extend(rest.trim_end_matches(')').split_whitespace().map(|x| x.to_string()));
                                } else if let Some(rest) = v.strip_prefix("( list ( ") {
                                    for it in rest.split("( int ").skip(1) {
                                        arcs.push(it.split_whitespace().next().unwrap_or("").to_string());
                                    }
                                } else {
                                    return unknown(e);
                                }
                            }
                            return format!("( oid ( {} ) )", arcs.join(" "));
                        }
                    }
                    unknown(e)
                }
                _ => unknown(e),
            }
        }
        Expr::Array(a) => sx_list_s("list", a.elems.iter().map(|x| eval(x, env))),
        Expr::Call(c) => {
            let f = match &*c.func {
                Expr::Path(p) => {
                    // `<OctetString as From<&'static [u8]>>::from`
                    if let Some(q) = &p.qself {
                        format!("<{}>::{}", proj::ts(&q.ty), path_str(&p.path))
                    } else {
                        path_str(&p.path)
                    }
                }
                _ => return unknown(e),
            };
            let args: Vec<&Expr> = c.args.iter().collect();
            if f == "Integer::from" && args.len() == 1 {
                if let Some(n) = int_lit(args[0]) {
                    return format!("( int {n} )");
                }
                return eval(args[0], env);
            }
            if f == "LazyLock::new" && args.len() == 1 {
                return eval(args[0], env);
            }
            if f == "String::from" && args.len() == 1 {
                return eval(args[0], env);
            }
            if (f.ends_with("::try_from") || f.ends_with("::from_str")) && args.len() == 1 {
                return eval(args[0], env);
            }
            if f.starts_with("<OctetString>") || f.contains("OctetString") && f.ends_with("from") {
                if let Some(Expr::Reference(r)) = args.first().map(|x| (*x).clone()) {
                    if let Expr::Array(a) = &*r.expr {
                        let bytes: Vec<String> = a.elems.iter().filter_map(int_lit).map(|v| v.to_string()).collect();
                        if bytes.len() == a.elems.len() {
                            return format!("( octets ( {} ) )", bytes.join(" "));
                        }
                    }
                }
                return unknown(e);
            }
            if (f == "Oid::const_new" || f == "Oid::new") && args.len() == 1 {
                let v = eval(args[0], env);
                if v.starts_with("( oid") {
                    return v;
                }
                if let Some(rest) = v.strip_prefix("( list ( ") {
                    let mut arcs = Vec::new();
                    for it in rest.split("( int ").skip(1) {
                        arcs.push(it.split_whitespace().next().unwrap_or("").to_string());
                    }
                    return format!("( oid ( {} ) )", arcs.join(" "));
                }
                return unknown(e);
            }
            // `T::new(a, b, c)`: SEQUENCE / SET value, positional
            if f.ends_with("::new") {
                return format!("( record {} )", sx_list(args.iter().map(|x| eval(x, env))));
            }
            // `Ch::alt(v)`: CHOICE value
            if let Expr::Path(p) = &*c.func {
                if p.path.segments.len() == 2 && args.len() == 1 {
                    let ty = p.path.segments[0].ident.to_string();
                    // a value of an anonymous inline CHOICE is rendered under the ASN.1 keyword (`CHOICE::alt(v)`): the name is wrong
                    // Rust (C01's business), the abstract value is that of the alternative
                    let alt = p.path.segments[1].ident.to_string();
                    let constructor_like = ["new", "from", "try_from", "from_str", "const_new", "parse"].contains(&alt.as_str());
                    if env.enums.get(&ty) == Some(&true) || ty == "CHOICE" || (!env.enums.contains_key(&ty) && !constructor_like && ty.starts_with(|ch: char| ch.is_ascii_uppercase())) {
                        return format!("( choice {} {} )", hex(&p.path.segments[1].ident.to_string()), eval(args[0], env));
                    }
                }
                // newtype wrapper `T(v)`
                if p.path.segments.len() == 1 && args.len() == 1 {
                    return eval(args[0], env);
                }
            }
            unknown(e)
        }
        _ => unknown(e),
    }
}

/// the expression tree of a generated initialiser, as far as the composite arms of `value_to_tokens` build it
/// (newtype wrappers, `T::new(..)`, `T::alt(..)`, `vec![..]`); everything else is a leaf and is read by `eval`
pub fn shape(e: &syn::Expr, env: &Env) -> String {
    use syn::Expr;
    let leaf = |e: &Expr| format!("( lit {} )", eval(e, env));
    match e {
        Expr::Paren(p) => shape(&p.expr, env),
        Expr::Group(g) => shape(&g.expr, env),
        Expr::Closure(c) => shape(&c.body, env),
        Expr::Block(b) if b.block.stmts.len() == 1 => match &b.block.stmts[0] {
            syn::Stmt::Expr(x, _) => shape(x, env),
            _ => leaf(e),
        },
        Expr::Macro(m) if path_str(&m.mac.path).ends_with("vec") => {
            match m.mac.parse_body_with(syn::punctuated::Punctuated::<Expr, syn::Token![,]>::parse_terminated) {
                Ok(items) => format!("( vec {} )", sx_list(items.iter().map(|x| shape(x, env)))),
                Err(_) => leaf(e),
            }
        }
        Expr::Call(c) => {
            if let Expr::Path(p) = &*c.func {
                if p.qself.is_none() {
                    let segs: Vec<String> = p.path.segments.iter().map(|s| s.ident.to_string()).collect();
                    let args: Vec<&Expr> = c.args.iter().collect();
                    if path_str(&p.path) == "LazyLock::new" && args.len() == 1 {
                        return shape(args[0], env);
                    }
                    let upper = |s: &String| s.starts_with(|ch: char| ch.is_ascii_uppercase());
                    let builtin = ["Integer", "Oid", "ObjectIdentifier", "String", "OctetString", "BitString", "Utf8String"];
                    if segs.len() == 1 && args.len() == 1 && upper(&segs[0]) {
                        return format!("( wrap {} {} )", hex(&segs[0]), shape(args[0], env));
                    }
                    if segs.len() == 2 && segs[1] == "new" && upper(&segs[0]) && !builtin.contains(&segs[0].as_str()) {
                        return format!("( new {} {} )", hex(&segs[0]), sx_list(args.iter().map(|x| shape(x, env))));
                    }
                    let constructor_like = ["new", "from", "try_from", "from_str", "const_new", "parse"];
                    if segs.len() == 2 && args.len() == 1 && upper(&segs[0]) && !constructor_like.contains(&segs[1].as_str()) && !builtin.contains(&segs[0].as_str()) {
                        return format!("( variant {} {} {} )", hex(&segs[0]), hex(&segs[1]), shape(args[0], env));
                    }
                }
            }
            leaf(e)
        }
        _ => leaf(e),
    }
}

fn sx_list_s<I: IntoIterator<Item = String>>(head: &str, it: I) -> String {
    format!("( {head} {} )", sx_list(it))
}

// ---- case generation ------------------------------------------------------------------------------------------

#[derive(Clone, Debug)]
pub struct Case {
    /// ASN.1 definitions of this case (value assignment or a type with a DEFAULT), `{id}` already substituted
    pub asn: String,
    /// where to look: Const(name) | DefaultFn(name)
    pub site: Site,
    /// source value as s-expression for the Lean reader
    pub src: String,
    pub kind: &'static str,
}
#[derive(Clone, Debug)]
pub enum Site {
    Const(String),
    DefaultFn(String),
}

pub const SUPPORT: &str = "Flags ::= BIT STRING { b9(9), b1(1), b15(15), b0(0), b5(5), b2(2) }\nCol ::= ENUMERATED { red, green(5), blue, dark-red(9) }\nUnit ::= ENUMERATED { kiloWatt, kilowatt, mega-watt, megaWatt, kilo-watt }\nNum ::= INTEGER { one(1), max-n(99), neg(-7) }\nInner ::= SEQUENCE { p INTEGER, q BOOLEAN }\nCh ::= CHOICE { ia INTEGER, bo BOOLEAN, st UTF8String, inner Inner }\nSq ::= SEQUENCE { x INTEGER, y BOOLEAN, z OCTET STRING }\nLi ::= SEQUENCE OF INTEGER\nMyInt ::= INTEGER\nMyInt2 ::= MyInt\nMyStr ::= UTF8String\nbase-oid OBJECT IDENTIFIER ::= { iso standard 8571 }\n";
const FLAG_DECL: [(&str, i64); 6] = [("b9", 9), ("b1", 1), ("b15", 15), ("b0", 0), ("b5", 5), ("b2", 2)];

fn esc(s: &str) -> String {
    s.replace('"', "\"\"")
}

fn gen_string(rng: &mut Rng, ascii_only: bool) -> String {
    let pool: Vec<&str> = if ascii_only {
        vec!["a", "b", "Z", " ", "x", "q", "\"", "!", "~", "k", "\\"]
    } else {
        vec!["a", "b", "Z", " ", "x", "\"", "é", "ß", "漢", "😀", "!", "k", "\\"]
    };
    let n = rng.below(9);
    (0..n).map(|_| *rng.pick(&pool)).collect()
}

pub fn gen_cases(cfg: &RunCfg) -> Vec<Case> {
    let mut cases = Vec::new();
    let mut rng = Rng::new(cfg.seed ^ 0xC07);
    let id = std::cell::Cell::new(0usize);
    let next = || {
        id.set(id.get() + 1);
        id.get()
    };
    let value = |ty: &str, notation: &str, src: String, kind: &'static str, cases: &mut Vec<Case>| {
        let i = next();
        cases.push(Case { asn: format!("v{i} {ty} ::= {notation}"), site: Site::Const(format!("V{i}")), src: src.clone(), kind });
        let j = next();
        cases.push(Case {
            asn: format!("D{j} ::= SEQUENCE {{ f {ty} DEFAULT {notation} }}"),
            site: Site::DefaultFn(format!("d{j}_f_default")),
            src: src.clone(),
            kind,
        });
        // the same DEFAULT three anonymous levels down (CHOICE in CHOICE in SEQUENCE, SET in CHOICE in SEQUENCE):
        // values are linked with their types at every depth
        let k = next();
        if k % 3 == 0 {
            cases.push(Case {
                asn: format!("N{k} ::= CHOICE {{ a CHOICE {{ b SEQUENCE {{ f {ty} DEFAULT {notation} }}, c NULL }}, d NULL }}"),
                site: Site::DefaultFn(format!("n{k}_ab_f_default")),
                src: src.clone(),
                kind,
            });
        } else if k % 3 == 1 {
            cases.push(Case {
                asn: format!("N{k} ::= SEQUENCE {{ i SET {{ j CHOICE {{ k SEQUENCE {{ f {ty} DEFAULT {notation} }} }} }} }}"),
                site: Site::DefaultFn(format!("n{k}_ijk_f_default")),
                src,
                kind,
            });
        }
    };
    // integers: the boundary set of C06 in [-2^127, 2^127)
    let mut ints: Vec<i128> = super::c06::boundary_set();
    ints.extend([i128::MIN, i128::MAX, 42, -42]);
    for n in &ints {
        let ty = ["INTEGER", "MyInt", "MyInt2", "Num"][(n.unsigned_abs() % 4) as usize];
        value(ty, &n.to_string(), format!("( int {n} )"), "integer", &mut cases);
    }
    value("BOOLEAN", "TRUE", "( bool t )".into(), "boolean", &mut cases);
    value("BOOLEAN", "FALSE", "( bool f )".into(), "boolean", &mut cases);
    value("NULL", "NULL", "null".into(), "null", &mut cases);
    // named numbers / enumerals
    for (n, v) in [("one", 1), ("max-n", 99), ("neg", -7)] {
        value("Num", n, format!("( named {} {v} )", hex(n)), "named-number", &mut cases);
    }
    for n in ["red", "green", "blue", "dark-red"] {
        let rust = n.replace('-', "_");
        value("Col", n, format!("( enumeral {} )", hex(&rust)), "enumeral", &mut cases);
    }
    // enumerals that differ by case or hyphen only: each names its own item
    for n in ["kiloWatt", "kilowatt", "mega-watt", "megaWatt", "kilo-watt"] {
        let rust = n.replace('-', "_");
        value("Unit", n, format!("( enumeral {} )", hex(&rust)), "enumeral-differing-by-case-only", &mut cases);
    }
    // character strings
    let nstr = cfg.budget(60, 1500);
    for k in 0..nstr {
        let (ty, ascii) = [("UTF8String", false), ("IA5String", true), ("VisibleString", true), ("MyStr", false), ("BMPString", false)][k % 5];
        let s = if k < 5 { String::new() } else { gen_string(&mut rng, ascii) };
        value(ty, &format!("\"{}\"", esc(&s)), format!("( cstring {} )", hex(&s)), "cstring", &mut cases);
    }
    // character strings written over several lines (X.680 12.14.1): spacing before a line break, the line break and the
    // indentation behind it are not part of the value; blank lines vanish
    let nml = cfg.budget(40, 800);
    for k in 0..nml {
        let (ty, ascii) = [("UTF8String", false), ("VisibleString", true), ("MyStr", false), ("IA5String", true)][k % 4];
        let nlines = 2 + rng.below(3);
        let mut content = String::new();
        let mut raw = String::new();
        for li in 0..nlines {
            // a line: no spacing at the edges that meet a line break
            let mut line = gen_string(&mut rng, ascii);
            if li > 0 {
                line = line.trim_start_matches([' ', '\t']).to_string();
            }
            if li + 1 < nlines {
                line = line.trim_end_matches([' ', '\t']).to_string();
            }
            if li > 0 {
                let before = ["", " ", "  ", "\t"][rng.below(4)];
                let brk = ["\n", "\r\n", "\n\n", "\n \n"][rng.below(4)];
                let after = ["", "    ", "\t", " \t "][rng.below(4)];
                raw.push_str(before);
                raw.push_str(brk);
                raw.push_str(after);
            }
            content.push_str(&line);
            raw.push_str(&esc(&line));
        }
        value(ty, &format!("\"{raw}\""), format!("( cstringml {} {} )", hex(&content), hex(&raw)), "cstring-over-several-lines", &mut cases);
    }
    // bstring / hstring
    let nbits = cfg.budget(80, 2000);
    for k in 0..nbits {
        let len = if k < 10 { k } else { rng.below(65) };
        let bits: String = (0..len).map(|_| if rng.chance(1, 2) { '1' } else { '0' }).collect();
        value("BIT STRING", &format!("'{bits}'B"), format!("( bstr {} bit )", hex(&bits)), "bstring", &mut cases);
        let hlen = if k < 8 { k } else { rng.below(17) };
        let hexs: String = (0..hlen).map(|_| *rng.pick(&"0123456789ABCDEF".chars().collect::<Vec<_>>())).collect();
        value("BIT STRING", &format!("'{hexs}'H"), format!("( hstr {} bit )", hex(&hexs)), "hstring", &mut cases);
        let olen = 2 * (if k < 6 { k } else { rng.below(9) });
        let ohex: String = (0..olen).map(|_| *rng.pick(&"0123456789ABCDEF".chars().collect::<Vec<_>>())).collect();
        value("OCTET STRING", &format!("'{ohex}'H"), format!("( hstr {} octet )", hex(&ohex)), "octet-hstring", &mut cases);
        // X.680 23.3: a bstring / hstring that does not fill its last octet stands for the octets with zero bits added at the end
        let plen = 1 + 2 * rng.below(4);
        let phex: String = (0..plen).map(|_| *rng.pick(&"0123456789ABCDEF".chars().collect::<Vec<_>>())).collect();
        value("OCTET STRING", &format!("'{phex}'H"), format!("( hstr {} octet )", hex(&phex)), "octet-hstring-partial-last-octet", &mut cases);
        let pblen = 8 * rng.below(3) + 1 + rng.below(7);
        let pbits: String = (0..pblen).map(|_| if rng.chance(1, 2) { '1' } else { '0' }).collect();
        value("OCTET STRING", &format!("'{pbits}'B"), format!("( bstr {} octet )", hex(&pbits)), "octet-bstring-partial-last-octet", &mut cases);
        let oblen = 8 * rng.below(5);
        let obits: String = (0..oblen).map(|_| if rng.chance(1, 2) { '1' } else { '0' }).collect();
        value("OCTET STRING", &format!("'{obits}'B"), format!("( bstr {} octet )", hex(&obits)), "octet-bstring", &mut cases);
    }
    // every hex digit on its own and doubled
    for d in "0123456789ABCDEF".chars() {
        value("BIT STRING", &format!("'{d}'H"), format!("( hstr {} bit )", hex(&d.to_string())), "hstring", &mut cases);
        value("OCTET STRING", &format!("'{d}{d}'H"), format!("( hstr {} octet )", hex(&format!("{d}{d}"))), "octet-hstring", &mut cases);
    }
    // named-bit lists: every subset of the six declared names (64)
    let decl_sx = sx_list(FLAG_DECL.iter().map(|(n, p)| format!("( {} {p} )", hex(n))));
    for mask in 0..64u32 {
        let names: Vec<&str> = FLAG_DECL.iter().enumerate().filter(|(i, _)| mask & (1 << i) != 0).map(|(_, d)| d.0).collect();
        value(
            "Flags",
            &format!("{{ {} }}", names.join(", ")),
            format!("( namedbits {} {decl_sx} )", sx_list(names.iter().map(|n| hex(n)))),
            "named-bits",
            &mut cases,
        );
    }
    // object identifiers
    let noid = cfg.budget(60, 1200);
    let roots: [(&str, u64); 3] = [("itu-t", 0), ("iso", 1), ("joint-iso-itu-t", 2)];
    let second: [&[(&str, u64)]; 2] = [
        &[("recommendation", 0), ("question", 1), ("administration", 2), ("network-operator", 3), ("identified-organization", 4), ("r-recommendation", 5)],
        &[("standard", 0), ("registration-authority", 1), ("member-body", 2), ("identified-organization", 3)],
    ];
    for k in 0..noid {
        let r = k % 3;
        let mut text = Vec::new();
        let mut sx = Vec::new();
        let form = |name: &str, num: u64, f: usize, text: &mut Vec<String>, sx: &mut Vec<String>| match f {
            0 => {
                text.push(num.to_string());
                sx.push(format!("( num {num} )"));
            }
            1 => {
                text.push(name.to_string());
                sx.push(format!("( name {} )", hex(name)));
            }
            _ => {
                text.push(format!("{name}({num})"));
                sx.push(format!("( namenum {} {num} )", hex(name)));
            }
        };
        form(roots[r].0, roots[r].1, rng.below(3), &mut text, &mut sx);
        if r < 2 {
            let s = rng.pick(second[r]);
            form(s.0, s.1, rng.below(3), &mut text, &mut sx);
        } else {
            form("x", rng.below(40) as u64, [0, 2][rng.below(2)], &mut text, &mut sx);
        }
        let extra = rng.below(9);
        for _ in 0..extra {
            let num = rng.below(100000) as u64;
            // further down, a name carries no number of its own: an arc that happens to be called like a
            // well-known root or second-level arc keeps the number written next to it
            let pool = ["arc-n", "arc-n", "standard", "iso", "question", "administration", "identified-organization", "member-body", "itu-t", "recommendation"];
            let name = *rng.pick(&pool);
            form(name, num, if name == "arc-n" { [0, 2][rng.below(2)] } else { 2 }, &mut text, &mut sx);
        }
        // value assignment only: OBJECT IDENTIFIER DEFAULTs are "currently unsupported" (warning)
        let i = next();
        cases.push(Case {
            asn: format!("v{i} OBJECT IDENTIFIER ::= {{ {} }}", text.join(" ")),
            site: Site::Const(format!("V{i}")),
            src: format!("( oid {} )", sx_list(sx)),
            kind: "oid",
        });
    }
    // OID with a local value reference
    for k in 0..6u64 {
        let i = next();
        cases.push(Case {
            asn: format!("v{i} OBJECT IDENTIFIER ::= {{ base-oid {k} sub(3) }}"),
            site: Site::Const(format!("V{i}")),
            src: format!("( oid ( ( ref {} ( 1 0 8571 ) ) ( num {k} ) ( namenum {} 3 ) ) )", hex("base-oid"), hex("sub")),
            kind: "oid-with-reference",
        });
    }
    // CHOICE / SEQUENCE / SEQUENCE OF values
    for n in [0i128, -5, 300, 1 << 70] {
        value("Ch", &format!("ia: {n}"), format!("( choice {} ( int {n} ) )", hex("ia")), "choice", &mut cases);
        value(
            "Sq",
            &format!("{{ x {n}, y TRUE, z 'AB'H }}"),
            format!("( record ( ( int {n} ) ( bool t ) ( hstr {} octet ) ) )", hex("AB")),
            "sequence",
            &mut cases,
        );
        let i = next();
        cases.push(Case {
            asn: format!("v{i} SEQUENCE OF INTEGER ::= {{ {n}, 1, 2 }}"),
            site: Site::Const(format!("V{i}")),
            src: format!("( list ( ( int {n} ) ( int 1 ) ( int 2 ) ) )"),
            kind: "sequence-of",
        });
    }
    // a SEQUENCE OF value whose governing type is a reference, and TIME-like character strings
    for n in [1i128, -2] {
        let i = next();
        cases.push(Case {
            asn: format!("v{i} Li ::= {{ {n}, 5 }}"),
            site: Site::Const(format!("V{i}")),
            src: format!("( list ( ( int {n} ) ( int 5 ) ) )"),
            kind: "sequence-of-by-reference",
        });
    }
    // lists of small numbers in every length up to six, with and without blanks: `{0,0,1,65}` is also the spelling of
    // a Quadruple and `{0,65}` of a Tuple (X.680 41.8 / 41.12) — under a list type they are lists
    for (li, list) in [vec![0i128, 0, 0, 0], vec![0, 10, 20, 30], vec![127, 0, 0, 1], vec![255, 255, 255, 0], vec![0, 0, 1, 65], vec![0, 65], vec![1, 1], vec![7], vec![0, 0, 0], vec![0, 1, 2, 3, 4], vec![0, 0, 0, 0, 0, 0]].iter().enumerate() {
        let src = format!("( list {} )", sx_list(list.iter().map(|n| format!("( int {n} )"))));
        let spaced = format!("{{ {} }}", list.iter().map(|n| n.to_string()).collect::<Vec<_>>().join(", "));
        let tight = format!("{{{}}}", list.iter().map(|n| n.to_string()).collect::<Vec<_>>().join(","));
        for (ty, kind) in [("SEQUENCE OF INTEGER", "sequence-of-small-numbers"), ("Li", "sequence-of-small-numbers-by-reference")] {
            let i = next();
            cases.push(Case { asn: format!("v{i} {ty} ::= {}", if li % 2 == 0 { &tight } else { &spaced }), site: Site::Const(format!("V{i}")), src: src.clone(), kind });
        }
        let e = next();
        cases.push(Case { asn: format!("D{e} ::= SEQUENCE {{ f Li DEFAULT {} }}", if li % 2 == 0 { &spaced } else { &tight }), site: Site::DefaultFn(format!("d{e}_f_default")), src: src.clone(), kind: "sequence-of-small-numbers-default" });
    }
    value("IA5String", "\"12:30\"", format!("( cstring {} )", hex("12:30")), "cstring-time-like", &mut cases);
    value("Ch", "bo: TRUE", format!("( choice {} ( bool t ) )", hex("bo")), "choice", &mut cases);
    value("Ch", "st: \"hi\"", format!("( choice {} ( cstring {} ) )", hex("st"), hex("hi")), "choice", &mut cases);
    // value references: one level and chains through constants
    for n in [7i128, -9, 1 << 40] {
        let a = next();
        let b = next();
        let c = next();
        cases.push(Case {
            asn: format!("v{a} INTEGER ::= {n}\nv{b} INTEGER ::= v{a}\nv{c} INTEGER ::= v{b}"),
            site: Site::Const(format!("V{c}")),
            src: format!("( ref ( ref ( int {n} ) ) )"),
            kind: "value-reference-chain",
        });
        let d = next();
        let e = next();
        cases.push(Case {
            asn: format!("v{d} MyInt ::= {n}\nD{e} ::= SEQUENCE {{ f MyInt DEFAULT v{d} }}"),
            site: Site::DefaultFn(format!("d{e}_f_default")),
            src: format!("( ref ( int {n} ) )"),
            kind: "value-reference-default",
        });
    }
    gen_composite(cfg, &mut cases);
    cases
}


// ---- composite values: generated types (nested, through references, with DEFAULTs) and values of them --------------

#[derive(Clone, Debug)]
enum CTy {
    Int,
    Bool,
    Null,
    Oct,
    Str,
    Seq(bool, Vec<(String, CTy, Option<CVal>)>), // is_set, members: name, type, DEFAULT
    SeqOf(Box<CTy>),
    Choice(Vec<(String, CTy)>),
    Named(String, Box<CTy>),
}
#[derive(Clone, Debug)]
enum CVal {
    Int(i128),
    Bool(bool),
    Null,
    Oct(Vec<u8>),
    Str(String),
    Braces(Vec<(Option<String>, CVal)>),
    Choice(String, Box<CVal>),
}

impl CTy {
    /// notation of the type where it is used (a named type is used by its name)
    fn text(&self) -> String {
        match self {
            CTy::Int => "INTEGER".into(),
            CTy::Bool => "BOOLEAN".into(),
            CTy::Null => "NULL".into(),
            CTy::Oct => "OCTET STRING".into(),
            CTy::Str => "UTF8String".into(),
            CTy::Seq(set, ms) => format!(
                "{} {{ {} }}",
                if *set { "SET" } else { "SEQUENCE" },
                ms.iter().map(|(n, t, d)| format!("{n} {}{}", t.text(), d.as_ref().map(|v| format!(" DEFAULT {}", v.text())).unwrap_or_default())).collect::<Vec<_>>().join(", ")
            ),
            CTy::SeqOf(e) => format!("SEQUENCE OF {}", e.text()),
            CTy::Choice(alts) => format!("CHOICE {{ {} }}", alts.iter().map(|(n, t)| format!("{n} {}", t.text())).collect::<Vec<_>>().join(", ")),
            CTy::Named(n, _) => n.clone(),
        }
    }
    /// the type as the Lean model reads it
    fn sx(&self) -> String {
        match self {
            CTy::Int | CTy::Bool | CTy::Null | CTy::Oct | CTy::Str => "leaf".into(),
            CTy::Seq(_, ms) => format!(
                "( seq {} )",
                sx_list(ms.iter().map(|(n, t, d)| format!("( {} {} {} )", hex(n), t.sx(), d.as_ref().map(|v| format!("( some {} )", v.sx())).unwrap_or("none".into()))))
            ),
            CTy::SeqOf(e) => format!("( seqof {} )", e.sx()),
            CTy::Choice(alts) => format!("( choice {} )", sx_list(alts.iter().map(|(n, t)| format!("( {} {} )", hex(n), t.sx())))),
            CTy::Named(n, t) => format!("( named {} {} )", hex(n), t.sx()),
        }
    }
    fn core(&self) -> &CTy {
        match self {
            CTy::Named(_, t) => t.core(),
            t => t,
        }
    }
    /// does a value of this type contain a braces group at all (everything else is leaf territory)
    fn composite(&self) -> bool {
        !matches!(self.core(), CTy::Int | CTy::Bool | CTy::Null | CTy::Oct | CTy::Str)
    }
}

impl CVal {
    fn text(&self) -> String {
        match self {
            CVal::Int(n) => n.to_string(),
            CVal::Bool(b) => if *b { "TRUE".into() } else { "FALSE".into() },
            CVal::Null => "NULL".into(),
            CVal::Oct(o) => format!("'{}'H", o.iter().map(|b| format!("{b:02X}")).collect::<String>()),
            CVal::Str(s) => format!("\"{}\"", esc(s)),
            CVal::Braces(fs) => {
                if fs.is_empty() {
                    "{}".into()
                } else {
                    format!("{{ {} }}", fs.iter().map(|(n, v)| match n { Some(n) => format!("{n} {}", v.text()), None => v.text() }).collect::<Vec<_>>().join(", "))
                }
            }
            CVal::Choice(a, v) => format!("{a} : {}", v.text()),
        }
    }
    /// the notation as the Lean model of the linker reads it
    fn sx(&self) -> String {
        match self {
            CVal::Int(n) => format!("( atom ( int {n} ) )"),
            CVal::Bool(b) => format!("( atom ( bool {} ) )", sx_bool(*b)),
            CVal::Null => "( atom null )".into(),
            CVal::Oct(o) => format!("( atom ( octets {} ) )", sx_list(o.iter().map(|b| b.to_string()))),
            CVal::Str(s) => format!("( atom ( str {} ) )", hex(s)),
            CVal::Braces(fs) => format!("( braces {} )", sx_list(fs.iter().map(|(n, v)| format!("( {} {} )", n.as_ref().map(|n| hex(n)).unwrap_or("none".into()), v.sx())))),
            CVal::Choice(a, v) => format!("( choice {} {} )", hex(a), v.sx()),
        }
    }
}

/// the reference reading, computed from the description alone: one entry per component in declaration
/// order (the given value, else the DEFAULT), elements in order, the named alternative
fn spec_of(ty: &CTy, v: &CVal) -> String {
    match (ty.core(), v) {
        (_, CVal::Int(n)) => format!("( int {n} )"),
        (_, CVal::Bool(b)) => format!("( bool {} )", sx_bool(*b)),
        (_, CVal::Null) => "null".into(),
        (_, CVal::Oct(o)) => format!("( hstr {} octet )", hex(&o.iter().map(|b| format!("{b:02X}")).collect::<String>())),
        (_, CVal::Str(s)) => format!("( cstring {} )", hex(s)),
        (CTy::Seq(_, ms), CVal::Braces(fs)) => format!(
            "( record {} )",
            sx_list(ms.iter().map(|(n, t, d)| match fs.iter().find(|(fnm, _)| fnm.as_deref() == Some(n.as_str())) {
                Some((_, fv)) => spec_of(t, fv),
                None => d.as_ref().map(|dv| spec_of(t, dv)).unwrap_or("( unknown x6d697373696e67 )".into()),
            }))
        ),
        (CTy::SeqOf(e), CVal::Braces(fs)) => format!("( list {} )", sx_list(fs.iter().map(|(_, fv)| spec_of(e, fv)))),
        (CTy::Choice(alts), CVal::Choice(a, iv)) => match alts.iter().find(|(n, _)| n == a) {
            Some((_, t)) => format!("( choice {} {} )", hex(a), spec_of(t, iv)),
            None => "( unknown x616c74 )".into(),
        },
        _ => "( unknown x6d69736d61746368 )".into(),
    }
}

fn gen_cty(rng: &mut Rng, depth: usize, named: &[CTy], names: &mut usize) -> CTy {
    let leaf = |rng: &mut Rng| [CTy::Int, CTy::Bool, CTy::Null, CTy::Oct, CTy::Str, CTy::Int][rng.below(6)].clone();
    if depth == 0 {
        if !named.is_empty() && rng.chance(1, 3) {
            return rng.pick(named).clone();
        }
        return leaf(rng);
    }
    match rng.below(8) {
        0 | 1 | 2 => {
            let n = 1 + rng.below(4);
            let set = rng.chance(1, 5);
            let mut ms = Vec::new();
            for _ in 0..n {
                *names += 1;
                let name = format!("m{}", *names);
                let t = gen_cty(rng, depth - 1, named, names);
                let d = if rng.chance(2, 5) { Some(gen_cval(rng, &t, true)) } else { None };
                ms.push((name, t, d));
            }
            CTy::Seq(set, ms)
        }
        3 | 4 => CTy::SeqOf(Box::new(gen_cty(rng, depth - 1, named, names))),
        5 => {
            let n = 1 + rng.below(3);
            let mut alts = Vec::new();
            for _ in 0..n {
                *names += 1;
                alts.push((format!("c{}", *names), gen_cty(rng, depth - 1, named, names)));
            }
            CTy::Choice(alts)
        }
        6 if !named.is_empty() => rng.pick(named).clone(),
        _ => leaf(rng),
    }
}

/// a value of the type: required components always, components with a DEFAULT half of the time, in declaration order
fn gen_cval(rng: &mut Rng, ty: &CTy, small: bool) -> CVal {
    match ty.core() {
        CTy::Int => CVal::Int(if small { rng.range(-9, 300) as i128 } else { *rng.pick(&[0i128, -1, 7, 255, 256, -129, 65536, 1 << 40, -(1 << 70), i64::MAX as i128 + 1]) }),
        CTy::Bool => CVal::Bool(rng.chance(1, 2)),
        CTy::Null => CVal::Null,
        CTy::Oct => CVal::Oct((0..rng.below(4)).map(|_| rng.below(256) as u8).collect()),
        CTy::Str => CVal::Str(gen_string(rng, false)),
        CTy::Seq(_, ms) => CVal::Braces(ms.iter().filter_map(|(n, t, d)| if d.is_none() || rng.chance(1, 2) { Some((Some(n.clone()), gen_cval(rng, t, small))) } else { None }).collect()),
        CTy::SeqOf(e) => CVal::Braces((0..rng.below(4)).map(|_| (None, gen_cval(rng, e, small))).collect()),
        CTy::Choice(alts) => {
            let (a, t) = rng.pick(alts);
            CVal::Choice(a.clone(), Box::new(gen_cval(rng, t, small)))
        }
        CTy::Named(..) => unreachable!(),
    }
}

/// does the notation contain a group spelled like an object identifier value (`{ a 1 }`, `{ a 1, b 2 }` are not: only
/// `{ ident number }` pairs without commas are; a one-member struct value with a number is exactly that)
fn has_oid_spelling(ty: &CTy, v: &CVal) -> bool {
    match (ty.core(), v) {
        (CTy::Seq(_, ms), CVal::Braces(fs)) => {
            (fs.len() == 1 && matches!(fs[0].1, CVal::Int(n) if n >= 0))
                || fs.iter().any(|(n, fv)| ms.iter().find(|(mn, _, _)| Some(mn) == n.as_ref()).map(|(_, t, _)| has_oid_spelling(t, fv)).unwrap_or(false))
                || ms.iter().any(|(_, t, d)| d.as_ref().map(|dv| has_oid_spelling(t, dv)).unwrap_or(false))
        }
        (CTy::SeqOf(e), CVal::Braces(fs)) => fs.iter().any(|(_, fv)| has_oid_spelling(e, fv)),
        (CTy::Choice(alts), CVal::Choice(a, iv)) => alts.iter().find(|(n, _)| n == a).map(|(_, t)| has_oid_spelling(t, iv)).unwrap_or(false),
        _ => false,
    }
}

pub const LINK_SEP: &str = " @@ ";

/// `expected_<a>_got_<b>`: do the two readings differ only in that octet strings of `<a>` are the same bits as bit strings in `<b>`?
fn only_unlinked_octet_defaults(msg: &str) -> bool {
    let Some(rest) = msg.strip_prefix("expected_") else { return false };
    let Some((exp, got)) = rest.split_once("_got_") else { return false };
    if !got.contains("bits:") {
        return false;
    }
    let mut out = String::new();
    let mut r = got;
    while let Some(p) = r.find("bits:") {
        out.push_str(&r[..p]);
        let tail = &r[p + 5..];
        let n = tail.chars().take_while(|c| *c == '0' || *c == '1').count();
        let bits = &tail[..n];
        if n % 8 != 0 {
            return false;
        }
        let bytes: Vec<String> = bits.as_bytes().chunks(8).map(|ch| u8::from_str_radix(std::str::from_utf8(ch).unwrap_or("0"), 2).unwrap_or(0).to_string()).collect();
        out.push_str("octets:");
        out.push_str(&bytes.join(","));
        r = &tail[n..];
    }
    out.push_str(r);
    out == exp
}

fn gen_composite(cfg: &RunCfg, cases: &mut Vec<Case>) {
    let mut rng = Rng::new(cfg.seed ^ 0xC07C0);
    let n = cfg.budget(120, 2500);
    let mut names = 0usize;
    for k in 0..n {
        // one to three named types, each may use the earlier ones; the governing type is the last one or a list of it
        let mut named: Vec<CTy> = Vec::new();
        let mut defs = Vec::new();
        let count = 1 + rng.below(3);
        for j in 0..count {
            let depth = 1 + rng.below(2);
            let mut t = gen_cty(&mut rng, depth, &named, &mut names);
            if !t.composite() || matches!(t, CTy::Named(..)) {
                names += 1;
                t = CTy::Seq(false, vec![(format!("m{names}"), t, None), (format!("n{names}"), CTy::Bool, None)]);
            }
            let name = format!("Cq{k}x{j}");
            defs.push(format!("{name} ::= {}", t.text()));
            named.push(CTy::Named(name.clone(), Box::new(t)));
            // now and then an alias of the type just defined (a chain of two references ends in it)
            if rng.chance(1, 3) {
                let alias = format!("Cq{k}x{j}a");
                let inner = named.last().unwrap().clone();
                defs.push(format!("{alias} ::= {name}"));
                named.push(CTy::Named(alias, Box::new(inner)));
            }
        }
        let last = named.last().unwrap().clone();
        let gov = match rng.below(6) {
            0 => CTy::SeqOf(Box::new(last)),
            1 if named.len() > 1 => named[0].clone(),
            _ => last,
        };
        let v = gen_cval(&mut rng, &gov, false);
        let kind = match gov.core() {
            CTy::Seq(..) => "composite:struct",
            CTy::SeqOf(..) => "composite:list",
            CTy::Choice(..) => "composite:choice",
            _ => "composite:leaf",
        };
        let kind = if has_oid_spelling(&gov, &v) { "composite:with-a-group-spelled-like-an-object-identifier" } else { kind };
        let src = format!("{}{LINK_SEP}{}{LINK_SEP}{}", spec_of(&gov, &v), gov.sx(), v.sx());
        let as_default = k % 3 == 2;
        if as_default {
            cases.push(Case {
                asn: format!("{}\nCd{k} ::= SEQUENCE {{ f {} DEFAULT {} }}", defs.join("\n"), gov.text(), v.text()),
                site: Site::DefaultFn(format!("cd{k}_f_default")),
                src,
                kind,
            });
        } else {
            cases.push(Case { asn: format!("{}\ncv{k} {} ::= {}", defs.join("\n"), gov.text(), v.text()), site: Site::Const(format!("CV{k}")), src, kind });
        }
    }
}

fn collect_consts(m: &ModuleFacts, generated: &str) -> (BTreeMap<String, syn::Expr>, BTreeMap<String, bool>, BTreeMap<String, syn::Expr>) {
    let mut consts = BTreeMap::new();
    let mut enums = BTreeMap::new();
    let mut fns = BTreeMap::new();
    for it in &m.items {
        if let ItemKind::Enum { .. } = &it.kind {
            enums.insert(it.name.clone(), it.attrs.has("choice"));
        }
    }
    // re-parse to get expressions (the projection keeps text only)
    if let Ok(file) = syn::parse_file(generated) {
        for item in file.items {
            if let syn::Item::Mod(md) = item {
                if let Some((_, items)) = md.content {
                    for it in items {
                        match it {
                            syn::Item::Const(c) => {
                                consts.insert(c.ident.to_string(), *c.expr);
                            }
                            syn::Item::Static(c) => {
                                consts.insert(c.ident.to_string(), *c.expr);
                            }
                            syn::Item::Fn(f) => {
                                if let Some(syn::Stmt::Expr(e, _)) = f.block.stmts.last() {
                                    fns.insert(f.sig.ident.to_string(), e.clone());
                                }
                            }
                            _ => {}
                        }
                    }
                }
            }
        }
    }
    (consts, enums, fns)
}

pub fn run(cfg: &RunCfg) -> Report {
    let mut rep = Report::new(
        "C07",
        "integers over the C06 boundary set and ±2^127 extremes (direct, through type-reference chains, named-number types), booleans, NULL, named numbers, enumerals, character strings (empty, doubled quotes, multi-byte) on five string types, bstring/hstring of 0..64 bits for BIT STRING, hex/binary OCTET STRING, every hex digit, all 64 subsets of a 6-name named-bit list declared out of order, OIDs of 2..11 arcs in number / name / name(number) form incl. every well-known root and second-level name, well-known names reused with other numbers further down, and a local value reference, CHOICE / SEQUENCE / SEQUENCE OF values, value-reference chains — each as value assignment and as DEFAULT where supported, the DEFAULT also three anonymous levels down. Observed: const/static initialisers and *_default bodies evaluated symbolically into abstract values",
    );
    let cases: Vec<Case> = if let Some(r) = &cfg.replay {
        let r = r.get("case").unwrap_or(r);
        // cases of the TypeScript families carry neither a constant nor a default function name: the value assignment's own name
        let first_word = r["asn1"].as_str().and_then(|a| a.split_whitespace().next()).unwrap_or("").to_string();
        let site = if let Some(n) = r["const"].as_str() {
            Site::Const(n.to_string())
        } else if let Some(d) = r["default_fn"].as_str() {
            Site::DefaultFn(d.to_string())
        } else if first_word.starts_with(|ch: char| ch.is_ascii_lowercase()) {
            Site::Const(first_word.to_uppercase().replace('-', "_"))
        } else {
            Site::DefaultFn(String::new())
        };
        let kind: &'static str = if r["kind"].as_str() == Some("typescript-string-constant") { "cstring" } else { "replay" };
        vec![Case { asn: r["asn1"].as_str().unwrap_or("").to_string(), site, src: r["src"].as_str().unwrap_or("").to_string(), kind }]
    } else {
        gen_cases(cfg)
    };
    rep.exhaustive = false;
    let rcfg = rasn_compiler::prelude::RasnConfig::default();
    let render = |idx: &[usize]| {
        vec![format!("C07-Mod DEFINITIONS AUTOMATIC TAGS ::= BEGIN\n{SUPPORT}{}\nEND\n", idx.iter().map(|i| cases[*i].asn.clone()).collect::<Vec<_>>().join("\n"))]
    };
    let mut reqs = Vec::new();
    let mut meta = Vec::new();
    let mut link_reqs = Vec::new();
    let mut link_meta: Vec<(usize, String)> = Vec::new();
    let mut maybe_unlinked: std::collections::BTreeSet<usize> = std::collections::BTreeSet::new();
    let mut render_reqs = Vec::new();
    let mut render_meta: Vec<(usize, String)> = Vec::new();
    for (idx, outcome) in batch_compile(cases.len(), 100, &render, &rcfg) {
        match outcome {
            Outcome::Ok { generated, warnings } => {
                let mods = match proj::project(&generated) {
                    Ok(m) => m,
                    Err(e) => {
                        rep.harness_errors.push(format!("projection failed: {e}"));
                        continue;
                    }
                };
                let Some(m) = mods.first() else { continue };
                let (consts, enums, fns) = collect_consts(m, &generated);
                let env = Env { consts: &consts, enums: &enums, depth: 0 };
                for i in idx {
                    rep.evaluations += 1;
                    let c = &cases[i];
                    let expr = match &c.site {
                        Site::Const(n) => consts.get(n),
                        Site::DefaultFn(n) => fns.get(n),
                    };
                    match expr {
                        Some(e) => {
                            let v = eval(e, &env);
                            rep.distinct.insert(c.asn.clone());
                            rep.count(&format!("kind:{}", c.kind));
                            rep.count(match c.site { Site::Const(_) => "site:value-assignment", Site::DefaultFn(_) => "site:DEFAULT" });
                            let mut parts = c.src.split(LINK_SEP);
                            let spec_src = parts.next().unwrap_or("");
                            if let (Some(ty), Some(val)) = (parts.next(), parts.next()) {
                                link_reqs.push(format!("c07link {ty} {val} {v}"));
                                link_meta.push((i, v.clone()));
                                let site = match c.site { Site::Const(_) => "assign", Site::DefaultFn(_) => "default" };
                                let sh = shape(e, &env);
                                render_reqs.push(format!("c07render {site} {ty} {val} {sh}"));
                                render_meta.push((i, sh));
                            }
                            reqs.push(format!("c07 {spec_src} {v}"));
                            meta.push((i, v));
                        }
                        None => {
                            let key = match &c.site { Site::Const(n) => n.to_lowercase(), Site::DefaultFn(n) => n.split('_').next().unwrap_or("").to_uppercase() };
                            // composite values: the generator's and the linker's refusals do not name the definition (C10 matches them by count)
                            let anonymous_refusal = c.kind.starts_with("composite") && warnings.iter().any(|w| w.contains("A type name is needed") || w.contains("LinkerError") || w.contains("unlinked"));
                            // a braces DEFAULT of a member's type copied before that type was linked reaches the generator unlinked (known finding)
                            let unlinked_default = c.kind.starts_with("composite") && c.src.contains("( some ( braces") && warnings.iter().any(|w| w.contains("unlinked struct-like"));
                            if unlinked_default {
                                maybe_unlinked.insert(i);
                            }
                            if anonymous_refusal {
                                let mut parts = c.src.split(LINK_SEP);
                                let _ = parts.next();
                                if let (Some(ty), Some(val)) = (parts.next(), parts.next()) {
                                    let site = match c.site { Site::Const(_) => "assign", Site::DefaultFn(_) => "default" };
                                    render_reqs.push(format!("c07render {site} {ty} {val} refused"));
                                    render_meta.push((i, "refused".into()));
                                }
                            }
                            if anonymous_refusal || warnings.iter().any(|w| w.to_lowercase().contains(&key.to_lowercase()) || w.contains("currently unsupported") || w.contains("Time value")) {
                                rep.count(&format!("not-judged:dropped-with-warning:{}", c.kind));
                            } else {
                                rep.count(&format!("unobserved:{}", c.kind));
                                rep.unsat("C07_value_silently_dropped", true, json!({"why": "no constant / default function was generated and no warning names the definition", "case": {"asn1": c.asn, "src": c.src}}));
                            }
                        }
                    }
                }
            }
            Outcome::Err(e) => {
                rep.evaluations += 1;
                rep.count("compile-err");
                rep.sample(json!({"compile_err": e, "asn1": cases[idx[0]].asn}));
            }
            Outcome::Panic(p) => {
                rep.evaluations += 1;
                rep.count("compile-panic");
                rep.sample(json!({"compile_panic": p, "asn1": cases[idx[0]].asn}));
            }
        }
    }
    // the TypeScript backend prints BIT STRING values as { value: "<hex>", length: <bits> }: the same abstract value
    {
        let bit_cases: Vec<usize> = meta.iter().filter(|(i, v)| v.starts_with("( bits") && matches!(cases[*i].site, Site::Const(_))).map(|(i, _)| *i).collect();
        for chunk in bit_cases.chunks(100) {
            let text = format!("C07-Mod DEFINITIONS AUTOMATIC TAGS ::= BEGIN\n{SUPPORT}{}\nEND\n", chunk.iter().map(|i| cases[*i].asn.clone()).collect::<Vec<_>>().join("\n"));
            if let Outcome::Ok { generated, .. } = compile_ts(&[text]) {
                let sq: String = generated.split_whitespace().collect::<Vec<_>>().join(" ");
                let mut ts_reqs = Vec::new();
                let mut ts_meta = Vec::new();
                for i in chunk {
                    let Site::Const(n) = &cases[*i].site else { continue };
                    let name = n.to_lowercase();
                    let Some(pos) = sq.find(&format!("export const {name} = {{ value: \"")) else { continue };
                    let rest = &sq[pos + format!("export const {name} = {{ value: \"").len()..];
                    let hexs: String = rest.chars().take_while(|c| *c != '"').collect();
                    let len: usize = rest.split("length: ").nth(1).map(|x| x.chars().take_while(|c| c.is_ascii_digit()).collect::<String>()).and_then(|x| x.parse().ok()).unwrap_or(usize::MAX);
                    let mut bits = String::from("x");
                    for h in hexs.chars() {
                        match h.to_digit(16) {
                            Some(d) => bits.push_str(&format!("{d:04b}")),
                            None => bits.push('?'),
                        }
                    }
                    let obs = if len == usize::MAX || len + 1 > bits.len() || bits.contains('?') { format!("( unknown {} )", hex(&format!("{hexs}/{len}"))) } else { format!("( bits {} )", &bits[..len + 1]) };
                    rep.count("typescript:bit-string-constant");
                    ts_reqs.push(format!("c07 {} {}", cases[*i].src, obs));
                    ts_meta.push((*i, obs, hexs, len));
                }
                if let Ok(ans) = run_driver(&ts_reqs) {
                    for (a, (i, obs, hexs, len)) in ans.iter().zip(ts_meta.iter()) {
                        let spec = a.split(' ').find_map(|t| t.strip_prefix("spec=")).unwrap_or("");
                        if let Some(msg) = spec.strip_prefix("bad:") {
                            rep.unsat("", false, json!({"why": format!("TypeScript constant {{ value: \"{hexs}\", length: {len} }}: {msg}"), "case": {"asn1": cases[*i].asn, "src": cases[*i].src, "observed": obs, "const": null, "default_fn": null, "kind": "typescript-bit-string"}}));
                        }
                    }
                }
            }
        }
    }
    // the TypeScript backend prints character string values through `string_literal`: model `Ts.Strings.stringLiteral`, and the
    // printed literal has to read (as an ECMAScript literal) as the source string
    {
        let str_cases: Vec<usize> = (0..cases.len()).filter(|i| cases[*i].kind == "cstring" && cases[*i].src.starts_with("( cstring ") && matches!(cases[*i].site, Site::Const(_))).collect();
        for chunk in str_cases.chunks(100) {
            let text = format!("C07-Mod DEFINITIONS AUTOMATIC TAGS ::= BEGIN\n{SUPPORT}{}\nEND\n", chunk.iter().map(|i| cases[*i].asn.clone()).collect::<Vec<_>>().join("\n"));
            match compile_ts(&[text]) {
                Outcome::Ok { generated, .. } => {
                    let mut ts_reqs = Vec::new();
                    let mut ts_meta = Vec::new();
                    for i in chunk {
                        let Site::Const(n) = &cases[*i].site else { continue };
                        let name = n.to_lowercase();
                        let needle = format!("export const {name} = ");
                        let Some(pos) = generated.find(&needle) else {
                            rep.count("typescript:string-constant-not-found");
                            continue;
                        };
                        // the rest of the line (a literal holds no raw line feed: it is printed escaped)
                        let rest = &generated[pos + needle.len()..];
                        let end = rest.find('\n').unwrap_or(rest.len());
                        let obs = rest[..end].trim_end().to_string();
                        let srcstr = cases[*i].src.trim_start_matches("( cstring ").trim_end_matches(" )").to_string();
                        rep.count("typescript:string-constant");
                        ts_reqs.push(format!("tsstr {} {}", srcstr, hex(&obs)));
                        ts_meta.push((*i, obs));
                    }
                    match run_driver(&ts_reqs) {
                        Ok(ans) => {
                            for (a, (i, obs)) in ans.iter().zip(ts_meta.iter()) {
                                let case_json = json!({"asn1": cases[*i].asn, "src": cases[*i].src, "observed": obs, "const": null, "default_fn": null, "kind": "typescript-string-constant"});
                                if a == "bad-request" {
                                    rep.harness_errors.push(format!("bad tsstr request for {}", cases[*i].asn));
                                    continue;
                                }
                                let model = a.split(' ').find_map(|t| t.strip_prefix("model=")).unwrap_or("");
                                let spec = a.split(' ').find_map(|t| t.strip_prefix("spec=")).unwrap_or("");
                                let agree = !model.starts_with("differ");
                                if !agree {
                                    rep.disagree(json!({"case": case_json.clone(), "model": model, "model_of": "Ts.Strings.stringLiteral (typescript string_literal)"}));
                                }
                                if let Some(msg) = spec.strip_prefix("bad:") {
                                    rep.unsat("", agree, json!({"why": format!("TypeScript constant `{obs}`: {msg}"), "case": case_json}));
                                }
                            }
                        }
                        Err(e) => rep.harness_errors.push(e),
                    }
                }
                _ => rep.count("typescript:string-chunk-did-not-compile"),
            }
        }
    }
    // the TypeScript backend names an enumeral in a constant as `Type.member`: the member has to be one the enum declares, and
    // the string it stands for (`member = "asn-name"`) has to be the enumeral written in the source
    {
        let enum_cases: Vec<usize> = (0..cases.len()).filter(|i| cases[*i].kind.starts_with("enumeral") && matches!(cases[*i].site, Site::Const(_))).collect();
        for chunk in enum_cases.chunks(100) {
            let text = format!("C07-Mod DEFINITIONS AUTOMATIC TAGS ::= BEGIN\n{SUPPORT}{}\nEND\n", chunk.iter().map(|i| cases[*i].asn.clone()).collect::<Vec<_>>().join("\n"));
            if let Outcome::Ok { generated, .. } = compile_ts(&[text]) {
                let sq: String = generated.split_whitespace().collect::<Vec<_>>().join(" ");
                // enum declarations: name -> member -> string
                let mut enums: BTreeMap<String, BTreeMap<String, String>> = BTreeMap::new();
                for part in sq.split("export enum ").skip(1) {
                    let Some((name, rest)) = part.split_once(' ') else { continue };
                    let Some(body) = rest.trim_start().strip_prefix('{').and_then(|b| b.split('}').next()) else { continue };
                    let mut ms = BTreeMap::new();
                    for m in body.split(',') {
                        if let Some((k, v)) = m.split_once('=') {
                            ms.insert(k.trim().to_string(), v.trim().trim_matches('"').to_string());
                        }
                    }
                    enums.insert(name.trim().to_string(), ms);
                }
                for i in chunk {
                    let Site::Const(n) = &cases[*i].site else { continue };
                    let name = n.to_lowercase();
                    let Some(pos) = sq.find(&format!("export const {name} = ")) else { continue };
                    let init: String = sq[pos + format!("export const {name} = ").len()..].chars().take_while(|c| *c != ';').collect();
                    rep.evaluations += 1;
                    rep.count("typescript:enumerated-constant");
                    // source enumeral: the last word of the assignment
                    let asn_enumeral = cases[*i].asn.split_whitespace().last().unwrap_or("").to_string();
                    let ok = match init.trim().split_once('.') {
                        Some((ty, member)) => enums.get(ty.trim()).and_then(|ms| ms.get(member.trim())).map(|s| *s == asn_enumeral).unwrap_or(false),
                        None => false,
                    };
                    if !ok {
                        rep.unsat("", false, json!({"why": format!("TypeScript constant `{name} = {}` does not name a declared member that stands for the enumeral `{asn_enumeral}`", init.trim()), "case": {"asn1": cases[*i].asn, "src": cases[*i].src, "observed": init.trim(), "const": null, "default_fn": null, "kind": "typescript-enumerated-constant"}}));
                    }
                }
            }
        }
    }
    // disagreements of the two composite models, kept back until the cases are classified: both models take the DEFAULTs of a
    // type as linked (`Link/Values`: "a DEFAULT is stored linked"), which the linker's processing order can break (known finding)
    let mut deferred: Vec<(usize, serde_json::Value)> = Vec::new();
    let mut unlinked_default_cases: std::collections::BTreeSet<usize> = std::collections::BTreeSet::new();
    // the model of the linker on the composite cases: what it links = what the implementation's initialiser denotes
    match run_driver(&link_reqs) {
        Ok(ans) => {
            for (a, (i, v)) in ans.iter().zip(link_meta.iter()) {
                let c = &cases[*i];
                rep.count(&format!("link-model:{}", a.split(':').next().unwrap_or(a)));
                if a == "bad-request" {
                    rep.harness_errors.push(format!("bad c07link request for {}: {}", c.asn, c.src));
                } else if a != "model=agree" {
                    deferred.push((*i, json!({"case": {"asn1": c.asn, "src": c.src, "observed": v, "kind": c.kind}, "model": a, "model_of": "Link.Values.link (link_with_type / link_struct_like / link_array_like)"})));
                }
            }
        }
        Err(e) => rep.harness_errors.push(e),
    }
    // the model of the generator's composite arms on the same cases: the expression it builds = the initialiser's tree
    match run_driver(&render_reqs) {
        Ok(ans) => {
            for (a, (i, sh)) in ans.iter().zip(render_meta.iter()) {
                let c = &cases[*i];
                rep.count(&format!("render-model:{}", a.split(':').next().unwrap_or(a)));
                if a == "bad-request" {
                    rep.harness_errors.push(format!("bad c07render request for {}: {} {}", c.asn, c.src, sh));
                } else if a.starts_with("model=differ:renders_") && maybe_unlinked.contains(i) {
                    // the model (DEFAULTs stored linked) renders it, the generator met an unlinked copy: the known finding, not a second alarm
                    rep.unsat("C07_default_copied_before_its_type_was_linked", true, json!({"why": "refused with `Unexpectedly encountered unlinked struct-like ASN1 value!`: a DEFAULT copied into the value before its type was linked", "case": {"asn1": c.asn, "src": c.src}}));
                } else if a.starts_with("model=differ") {
                    deferred.push((*i, json!({"case": {"asn1": c.asn, "src": c.src, "observed": sh, "kind": c.kind}, "model": a, "model_of": "Gen.Values.render (value_to_tokens, composite arms)"})));
                }
            }
        }
        Err(e) => rep.harness_errors.push(e),
    }
    let answers = match run_driver(&reqs) {
        Ok(a) => a,
        Err(e) => {
            rep.harness_errors.push(e);
            return rep;
        }
    };
    for (k, a) in answers.iter().enumerate() {
        let (i, v) = &meta[k];
        let c = &cases[*i];
        let mut model = "";
        let mut spec = "";
        for tok in a.split(' ') {
            if let Some(x) = tok.strip_prefix("model=") {
                model = x;
            }
            if let Some(x) = tok.strip_prefix("spec=") {
                spec = x;
            }
        }
        let (cn, df) = match &c.site { Site::Const(n) => (Some(n.clone()), None), Site::DefaultFn(n) => (None, Some(n.clone())) };
        let case_json = json!({"asn1": c.asn, "src": c.src, "observed": v, "const": cn, "default_fn": df, "kind": c.kind});
        if k % 97 == 0 {
            rep.sample(json!({"asn1": c.asn, "observed": v, "answer": a}));
        }
        if a == "bad-request" {
            rep.harness_errors.push(format!("bad request for {}: {} {}", c.asn, c.src, v));
            continue;
        }
        let agree = !model.starts_with("differ");
        if !agree {
            rep.disagree(json!({"case": case_json, "model": model}));
        }
        if let Some(msg) = spec.strip_prefix("bad:") {
            if c.kind.starts_with("composite") && only_unlinked_octet_defaults(msg) {
                // a DEFAULT of a member's type, copied into a struct value before that type was linked, is still a bit string
                unlinked_default_cases.insert(*i);
                rep.unsat("C07_default_copied_before_its_type_was_linked", true, json!({"why": msg, "case": case_json}));
            } else {
                rep.unsat("", agree, json!({"why": msg, "case": case_json}));
            }
        }
    }
    for (i, d) in deferred {
        if !unlinked_default_cases.contains(&i) {
            rep.disagree(d);
        }
    }
    rep
}

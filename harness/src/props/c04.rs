//! C04: emitted value / size bounds equal the PER-visible effective constraint.
use crate::proj::{self, ItemKind};
use crate::report::{Report, RunCfg};
use crate::util::*;
use serde_json::json;

#[derive(Clone, Debug, PartialEq)]
pub enum Elem {
    Single(i128),
    Range(Option<i128>, Option<i128>),
}
#[derive(Clone, Copy, Debug, PartialEq)]
pub enum Op {
    Inter,
    Union,
    Except,
}
#[derive(Clone, Debug)]
pub struct Cons {
    pub first: Elem,
    pub rest: Vec<(Op, Elem)>,
    pub marker: bool,
    pub outer_marker: bool,
    pub all_except: bool,
    /// every operand is written in parentheses of its own; a marker then follows the last parenthesis and
    /// belongs to the element set: `((0..5) | (10..20), ...)`
    pub paren: bool,
}
#[derive(Clone, Copy, Debug, PartialEq, Eq, PartialOrd, Ord)]
pub enum Ctx {
    IntAssign,
    IntComp,
    IntRef,
    IntValueRef,
    /// exactly one of the written values is a value reference, the others are literals
    IntOneRef,
    /// a component of an inline INTEGER that declares the named numbers its constraint uses (while other types
    /// declare the same names with other numbers)
    IntInlineNamed,
    IntNamedRef,
    IntNamedComp,
    OctetComp,
    BitComp,
    Ia5Comp,
    SeqOfComp,
    OctetAssign,
    BitAssign,
    Ia5Assign,
    SeqOfAssign,
}
#[derive(Clone, Debug)]
pub struct Case {
    pub ctx: Ctx,
    pub cons: Vec<Cons>,
    /// alternate spelling: UNION / INTERSECTION keywords
    pub words: bool,
}

impl Ctx {
    fn is_size(self) -> bool {
        !matches!(self, Ctx::IntAssign | Ctx::IntComp | Ctx::IntRef | Ctx::IntValueRef | Ctx::IntOneRef | Ctx::IntInlineNamed | Ctx::IntNamedRef | Ctx::IntNamedComp)
    }
    /// the `signed` argument the generator passes to format_range_annotations for this context
    fn signed_arg(self) -> bool {
        matches!(self, Ctx::IntAssign | Ctx::IntRef | Ctx::IntNamedRef | Ctx::OctetAssign | Ctx::BitAssign | Ctx::Ia5Assign | Ctx::SeqOfAssign | Ctx::IntComp | Ctx::IntValueRef | Ctx::IntOneRef)
    }
    fn name(self) -> &'static str {
        match self {
            Ctx::IntAssign => "INTEGER type assignment",
            Ctx::IntComp => "INTEGER component",
            Ctx::IntRef => "constrained type reference",
            Ctx::IntValueRef => "bounds given by value references",
            Ctx::IntOneRef => "one bound / operand given by a value reference, the others literal (type assignment)",
            Ctx::IntInlineNamed => "bounds given by the named numbers of the inline INTEGER itself (component)",
            Ctx::IntNamedRef => "bounds given by named numbers of the referenced type (assignment)",
            Ctx::IntNamedComp => "bounds given by named numbers of the referenced type (component)",
            Ctx::OctetComp => "OCTET STRING SIZE component",
            Ctx::BitComp => "BIT STRING SIZE component",
            Ctx::Ia5Comp => "IA5String SIZE component",
            Ctx::SeqOfComp => "SEQUENCE SIZE OF component",
            Ctx::OctetAssign => "OCTET STRING SIZE assignment",
            Ctx::BitAssign => "BIT STRING SIZE assignment",
            Ctx::Ia5Assign => "IA5String SIZE assignment",
            Ctx::SeqOfAssign => "SEQUENCE SIZE OF assignment",
        }
    }
}

fn val_name(v: i128) -> String {
    if v < 0 { format!("vm{}", -v) } else { format!("vp{v}") }
}

fn named(v: i128) -> String {
    if v < 0 { format!("nm{}", -v) } else { format!("np{v}") }
}

/// the constraint text with its (i mod n)-th numeric literal replaced by the value reference that stands for it
fn one_ref(ct: &str, i: usize) -> String {
    let cs: Vec<char> = ct.chars().collect();
    let mut spans: Vec<(usize, usize)> = Vec::new();
    let mut k = 0;
    while k < cs.len() {
        let start_ok = k == 0 || !(cs[k - 1].is_alphanumeric() || cs[k - 1] == '-' || cs[k - 1] == '_');
        if start_ok && (cs[k].is_ascii_digit() || (cs[k] == '-' && k + 1 < cs.len() && cs[k + 1].is_ascii_digit())) {
            let mut j = k + 1;
            while j < cs.len() && cs[j].is_ascii_digit() {
                j += 1;
            }
            spans.push((k, j));
            k = j;
        } else {
            k += 1;
        }
    }
    if spans.is_empty() {
        return ct.to_string();
    }
    let (a, b) = spans[i % spans.len()];
    let lit: String = cs[a..b].iter().collect();
    match lit.parse::<i128>() {
        Ok(v) if POINTS.contains(&v) => format!("{}{}{}", cs[..a].iter().collect::<String>(), val_name(v), cs[b..].iter().collect::<String>()),
        _ => ct.to_string(),
    }
}

fn elem_asn(e: &Elem, byref: u8) -> String {
    let r = |v: i128| match byref { 1 => val_name(v), 2 => named(v), _ => v.to_string() };
    match e {
        Elem::Single(v) => r(*v),
        Elem::Range(lo, hi) => format!("{}..{}", lo.map_or("MIN".into(), r), hi.map_or("MAX".into(), r)),
    }
}
fn elem_sx(e: &Elem) -> String {
    match e {
        Elem::Single(v) => format!("( single {v} )"),
        Elem::Range(lo, hi) => format!("( range {} {} )", sx_opt(lo), sx_opt(hi)),
    }
}

impl Cons {
    fn body(&self, words: bool, byref: u8) -> String {
        let mut s = String::new();
        if self.all_except {
            s.push_str("ALL EXCEPT ");
        }
        let wrap = |t: String| if self.paren { format!("({t})") } else { t };
        s.push_str(&wrap(elem_asn(&self.first, byref)));
        for (o, e) in &self.rest {
            s.push_str(match (o, words) {
                (Op::Inter, false) => " ^ ",
                (Op::Inter, true) => " INTERSECTION ",
                (Op::Union, false) => " | ",
                (Op::Union, true) => " UNION ",
                (Op::Except, _) => " EXCEPT ",
            });
            s.push_str(&wrap(elem_asn(e, byref)));
        }
        if self.marker {
            s.push_str(", ...");
        }
        s
    }
    fn sx(&self, is_size: bool) -> String {
        format!(
            "( chain {} {} {} {} {} {} )",
            sx_bool(self.marker && (!self.paren || is_size)),
            sx_bool(self.outer_marker || (self.marker && self.paren && !is_size)),
            sx_bool(is_size),
            sx_bool(self.all_except),
            elem_sx(&self.first),
            sx_list(self.rest.iter().map(|(o, e)| format!("( {} {} )", match o { Op::Inter => "inter", Op::Union => "union", Op::Except => "except" }, elem_sx(e))))
        )
    }
    fn finite(&self) -> Vec<i128> {
        let mut v = Vec::new();
        let mut add = |e: &Elem| match e {
            Elem::Single(x) => v.push(*x),
            Elem::Range(a, b) => {
                v.extend(a.iter());
                v.extend(b.iter());
            }
        };
        add(&self.first);
        for (_, e) in &self.rest {
            add(e);
        }
        v
    }
}

impl Case {
    fn constraint_text(&self, byref: u8) -> String {
        self.cons
            .iter()
            .map(|c| {
                if self.ctx.is_size() {
                    format!("(SIZE({}){})", c.body(self.words, byref), if c.outer_marker { ", ..." } else { "" })
                } else {
                    format!("({})", c.body(self.words, byref))
                }
            })
            .collect::<Vec<_>>()
            .join("")
    }
    pub fn asn(&self, i: usize) -> String {
        let ct = self.constraint_text(match self.ctx { Ctx::IntValueRef => 1, Ctx::IntNamedRef | Ctx::IntNamedComp | Ctx::IntInlineNamed => 2, _ => 0 });
        match self.ctx {
            Ctx::IntAssign => format!("A{i} ::= INTEGER {ct}"),
            Ctx::IntOneRef => format!("A{i} ::= INTEGER {}", one_ref(&ct, i)),
            Ctx::IntComp | Ctx::IntValueRef => format!("S{i} ::= SEQUENCE {{ f INTEGER {ct} }}"),
            Ctx::IntRef => format!("R{i} ::= Base-Int {ct}"),
            Ctx::IntNamedRef => format!("R{i} ::= Zed-Base {ct}"),
            Ctx::IntNamedComp => format!("S{i} ::= SEQUENCE {{ f Zed-Base {ct} }}"),
            Ctx::IntInlineNamed => format!("S{i} ::= SEQUENCE {{ f INTEGER {{ {} }} {ct} }}", POINTS.iter().map(|v| format!("{}({v})", named(*v))).collect::<Vec<_>>().join(", ")),
            Ctx::OctetComp => format!("S{i} ::= SEQUENCE {{ f OCTET STRING {ct} }}"),
            Ctx::BitComp => format!("S{i} ::= SEQUENCE {{ f BIT STRING {ct} }}"),
            Ctx::Ia5Comp => format!("S{i} ::= SEQUENCE {{ f IA5String {ct} }}"),
            Ctx::SeqOfComp => {
                let sizes: String = ct.clone();
                format!("S{i} ::= SEQUENCE {{ f SEQUENCE {sizes} OF BOOLEAN }}")
            }
            Ctx::OctetAssign => format!("O{i} ::= OCTET STRING {ct}"),
            Ctx::BitAssign => format!("O{i} ::= BIT STRING {ct}"),
            Ctx::Ia5Assign => format!("O{i} ::= IA5String {ct}"),
            Ctx::SeqOfAssign => format!("O{i} ::= SEQUENCE {ct} OF BOOLEAN"),
        }
    }
    fn key(&self) -> String {
        format!("{:?}|{}|{}", self.ctx, self.constraint_text(0), self.words)
    }
}

const POINTS: [i128; 5] = [-3, 0, 2, 7, 300];

fn elems(size: bool) -> Vec<Elem> {
    let pts: Vec<i128> = POINTS.iter().cloned().filter(|v| !size || *v >= 0).collect();
    let mut v: Vec<Elem> = pts.iter().map(|p| Elem::Single(*p)).collect();
    let mut bounds: Vec<Option<i128>> = vec![None];
    bounds.extend(pts.iter().map(|p| Some(*p)));
    for lo in &bounds {
        for hi in &bounds {
            match (lo, hi) {
                (Some(l), Some(h)) if l >= h => continue,
                _ => {}
            }
            // MIN on a size is written 0 by people; keep MIN/MAX as such for values only
            if size && lo.is_none() {
                continue;
            }
            v.push(Elem::Range(*lo, *hi));
        }
    }
    v
}

pub fn gen_cases(cfg: &RunCfg) -> Vec<Case> {
    let mut cases: Vec<Case> = Vec::new();
    let ops = [Op::Union, Op::Inter, Op::Except];
    let vctx = [Ctx::IntAssign, Ctx::IntComp, Ctx::IntRef, Ctx::IntValueRef, Ctx::IntNamedRef, Ctx::IntNamedComp, Ctx::IntOneRef, Ctx::IntInlineNamed];
    let sctx = [Ctx::OctetComp, Ctx::BitComp, Ctx::Ia5Comp, Ctx::SeqOfComp, Ctx::OctetAssign, Ctx::BitAssign, Ctx::Ia5Assign, Ctx::SeqOfAssign];
    let mut k = 0usize;
    for size in [false, true] {
        let es = elems(size);
        let mut ctx = |k: usize| if size { sctx[k % sctx.len()] } else { vctx[k % vctx.len()] };
        // 1 operand (all contexts), with/without marker, ALL EXCEPT
        for e in &es {
            for marker in [false, true] {
                for c in if size { sctx.to_vec() } else { vctx.to_vec() } {
                    cases.push(Case { ctx: c, cons: vec![Cons { first: e.clone(), rest: vec![], marker, outer_marker: false, all_except: false, paren: false }], words: false });
                }
            }
            if !size {
                cases.push(Case { ctx: Ctx::IntComp, cons: vec![Cons { first: e.clone(), rest: vec![], marker: false, outer_marker: false, all_except: true, paren: false }], words: false });
            } else {
                cases.push(Case { ctx: Ctx::OctetComp, cons: vec![Cons { first: e.clone(), rest: vec![], marker: false, outer_marker: true, all_except: false, paren: false }], words: false });
            }
        }
        // 2 operands: full slice
        for a in &es {
            for o in ops {
                for b in &es {
                    k += 1;
                    cases.push(Case {
                        ctx: ctx(k),
                        cons: vec![Cons { first: a.clone(), rest: vec![(o, b.clone())], marker: k % 3 == 0, outer_marker: false, all_except: false, paren: k % 6 == 0 }],
                        words: k % 7 == 0,
                    });
                }
            }
        }
    }
    // 3 operands and serial constraints: seeded sample (thorough: much larger)
    let mut rng = Rng::new(cfg.seed ^ 0xC04);
    let n = cfg.budget(6000, 150000);
    for _ in 0..n {
        let size = rng.chance(1, 3);
        let es = elems(size);
        let ctx = if size { *rng.pick(&sctx) } else { *rng.pick(&vctx) };
        let mut cons = Vec::new();
        let serial = if rng.chance(1, 4) { 2 } else { 1 };
        for _ in 0..serial {
            let nops = if rng.chance(3, 4) { 2 } else { rng.below(2) };
            // mostly-legal: bias towards operands around a common anchor
            let first = rng.pick(&es).clone();
            let rest: Vec<(Op, Elem)> = (0..nops).map(|_| (*rng.pick(&ops), rng.pick(&es).clone())).collect();
            let marker = rng.chance(1, 4);
            cons.push(Cons { first, rest, marker, outer_marker: size && rng.chance(1, 10), all_except: false, paren: marker && rng.chance(1, 3) });
        }
        cases.push(Case { ctx, cons, words: rng.chance(1, 8) });
    }
    cases
}

#[derive(Debug, Clone, PartialEq)]
enum Obs {
    None,
    Attr { size: bool, lo: Option<i128>, hi: Option<i128>, ext: bool },
    Bad(String),
}

fn parse_attr(a: &proj::Attrs, ty: &str) -> Obs {
    if let Some(n) = ty.strip_prefix("FixedOctetString<").or_else(|| ty.strip_prefix("FixedBitString<")) {
        let n: String = n.chars().take_while(|c| c.is_ascii_digit()).collect();
        if let Ok(v) = n.parse::<i128>() {
            return Obs::Attr { size: true, lo: Some(v), hi: Some(v), ext: false };
        }
    }
    let (size, v) = match (a.get("value"), a.get("size")) {
        (Some(v), None) => (false, v),
        (None, Some(v)) => (true, v),
        (None, None) => return Obs::None,
        _ => return Obs::Bad("both value and size".into()),
    };
    // "lo..=hi" | "lo.." | "..=hi" | "v"  [, extensible]
    let (range, ext) = match v.split_once(',') {
        Some((r, e)) => (r, e.trim() == "extensible"),
        None => (v, false),
    };
    let r = range.trim().trim_matches('"');
    let num = |s: &str| s.parse::<i128>().ok();
    let (lo, hi) = if let Some((l, h)) = r.split_once("..=") {
        (if l.is_empty() { None } else { match num(l) { Some(x) => Some(x), None => return Obs::Bad(r.into()) } }, match num(h) { Some(x) => Some(x), None => return Obs::Bad(r.into()) })
    } else if let Some(l) = r.strip_suffix("..") {
        (match num(l) { Some(x) => Some(x), None => return Obs::Bad(r.into()) }, None)
    } else if let Some((l, h)) = r.split_once("..") {
        // rasn reads the text as a Rust range expression: `lo..hi` and `..hi` exclude `hi`
        (if l.is_empty() { None } else { match num(l) { Some(x) => Some(x), None => return Obs::Bad(r.into()) } }, match num(h) { Some(x) => Some(x - 1), None => return Obs::Bad(r.into()) })
    } else {
        match num(r) {
            Some(x) => (Some(x), Some(x)),
            None => return Obs::Bad(r.into()),
        }
    };
    Obs::Attr { size, lo, hi, ext }
}

fn observe(m: &proj::ModuleFacts, c: &Case, i: usize) -> Result<Obs, String> {
    match c.ctx {
        Ctx::IntAssign | Ctx::IntOneRef | Ctx::IntRef | Ctx::IntNamedRef | Ctx::OctetAssign | Ctx::BitAssign | Ctx::Ia5Assign | Ctx::SeqOfAssign => {
            let n = match c.ctx { Ctx::IntAssign | Ctx::IntOneRef => format!("A{i}"), Ctx::IntRef | Ctx::IntNamedRef => format!("R{i}"), _ => format!("O{i}") };
            match m.item(&n) {
                Some(it) => match &it.kind {
                    ItemKind::Struct { fields, tuple: true } if fields.len() == 1 => Ok(parse_attr(&it.attrs, &fields[0].ty)),
                    o => Err(format!("{n}: {o:?}")),
                },
                None => Err(format!("{n} missing")),
            }
        }
        Ctx::SeqOfComp => {
            // `f SEQUENCE (SIZE(..)) OF BOOLEAN`: the size sits on the field (plain element type, no hoisting)
            match m.item(&format!("S{i}")).map(|x| &x.kind) {
                Some(ItemKind::Struct { fields, .. }) if fields.len() == 1 => Ok(parse_attr(&fields[0].attrs, &fields[0].ty)),
                o => Err(format!("S{i}: {o:?}")),
            }
        }
        _ => match m.item(&format!("S{i}")).map(|x| &x.kind) {
            Some(ItemKind::Struct { fields, .. }) if fields.len() == 1 => Ok(parse_attr(&fields[0].attrs, &fields[0].ty)),
            o => Err(format!("S{i}: {o:?}")),
        },
    }
}

pub fn run(cfg: &RunCfg) -> Report {
    let mut rep = Report::new(
        "C04",
        "[plus a size constraint intersected with a permitted alphabet inside one constraint, in both orders, on six string types, as component and as assignment: the size annotation equals the one of the size constraint alone] [plus contained subtypes as operands of |, ^, EXCEPT in either position and in three-operand unions / intersections, judged for `never excludes a permitted value`] subtype expressions over the 7-point endpoint alphabet {MIN,-3,0,2,7,300,MAX} (sizes: {0,2,7,300,MAX}): every 1- and 2-operand expression (single values, ranges incl. MIN/MAX) × {|, ^, EXCEPT} (also spelled UNION/INTERSECTION), ALL EXCEPT, inner and outer extension marker, and a seeded sample of 3-operand expressions and of 2 serial constraints, on INTEGER (assignment, component, constrained reference, bounds by value reference) and SIZE of OCTET STRING / BIT STRING / IA5String / SEQUENCE OF; oracle: never-excludes at every finite endpoint ±1, exact hull, extensible iff marker. Non-trivial = compiled and annotation read back; distinct = distinct (context, notation)",
    );
    if let Some(r) = &cfg.replay {
        let r = r.get("case").unwrap_or(r);
        if let (Some(t), Some(sx), Some(comp)) = (r["contained_text"].as_str(), r["contained_sx"].as_str(), r["contained_component"].as_bool()) {
            contained_family(&[(t.to_string(), sx.to_string(), comp)], &mut rep);
            return rep;
        }
        if let Some(a) = r["size_alphabet"].as_array() {
            if let (Some(t), Some(sz), Some(al), Some(af), Some(comp)) = (a[0].as_str(), a[1].as_str(), a[2].as_str(), a[3].as_bool(), a[4].as_bool()) {
                size_with_alphabet_family(&[(t.to_string(), sz.to_string(), al.to_string(), af, comp)], &mut rep);
                return rep;
            }
        }
    }
    let cases: Vec<Case> = if let Some(r) = &cfg.replay { vec![case_from_json(r).expect("bad replay")] } else {
        let mut c: Vec<Case> = load_corpus("C04").iter().filter_map(case_from_json).collect();
        c.extend(gen_cases(cfg));
        c
    };
    rep.exhaustive = cfg.replay.is_none();
    let rcfg = rasn_compiler::prelude::RasnConfig::default();
    let mut values: String = POINTS.iter().map(|v| format!("{} INTEGER ::= {v}\n", val_name(*v))).collect();
    // named numbers of the referenced type, and a decoy type sorting before it that gives the same names other values
    values.push_str(&format!("Zed-Base ::= INTEGER {{ {} }}\n", POINTS.iter().map(|v| format!("{}({v})", named(*v))).collect::<Vec<_>>().join(", ")));
    values.push_str(&format!("Aaa-Decoy ::= INTEGER {{ {} }}\n", POINTS.iter().map(|v| format!("{}({})", named(*v), v + 1000)).collect::<Vec<_>>().join(", ")));
    let render = |idx: &[usize]| {
        vec![format!(
            "C04-Mod DEFINITIONS AUTOMATIC TAGS ::= BEGIN\nBase-Int ::= INTEGER\n{values}{}\nEND\n",
            idx.iter().map(|i| cases[*i].asn(*i)).collect::<Vec<_>>().join("\n")
        )]
    };
    let mut reqs = Vec::new();
    let mut meta = Vec::new();
    for (idx, outcome) in batch_compile(cases.len(), 120, &render, &rcfg) {
        match outcome {
            Outcome::Ok { generated, warnings } => {
                let mods = match proj::project(&generated) {
                    Ok(m) => m,
                    Err(e) => {
                        rep.harness_errors.push(format!("projection failed: {e}"));
                        continue;
                    }
                };
                let Some(m) = mods.first() else { continue };
                for i in idx {
                    rep.evaluations += 1;
                    let c = &cases[i];
                    match observe(m, c, i) {
                        Ok(Obs::Bad(b)) => rep.harness_errors.push(format!("unparsed annotation `{b}` for {}", c.asn(i))),
                        Ok(o) => {
                            rep.distinct.insert(c.key());
                            rep.count(&format!("ctx:{}", c.ctx.name()));
                            rep.count(&format!("operands:{}", c.cons.iter().map(|k| 1 + k.rest.len()).max().unwrap_or(1)));
                            if c.cons.len() > 1 {
                                rep.count("serial");
                            }
                            for k in &c.cons {
                                for (o, _) in &k.rest {
                                    rep.count(&format!("op:{o:?}"));
                                }
                            }
                            let obs_sx = match &o {
                                Obs::None => "none".to_string(),
                                Obs::Attr { size, lo, hi, ext } => format!("( attr {} {} {} {} )", sx_bool(*size), sx_opt(lo), sx_opt(hi), sx_bool(*ext)),
                                Obs::Bad(_) => unreachable!(),
                            };
                            reqs.push(format!("c04 {} {} {} {}", sx_bool(c.ctx.signed_arg()), sx_bool(c.ctx.is_size()), sx_list(c.cons.iter().map(|k| k.sx(c.ctx.is_size()))), obs_sx));
                            meta.push((i, o));
                        }
                        Err(e) => {
                            // an empty intersection is a GrammarError: the definition is dropped with a warning
                            let names = [format!("A{i}"), format!("S{i}"), format!("R{i}"), format!("O{i}")];
                            if warnings.iter().any(|w| w.contains("Empty intersection") || names.iter().any(|n| w.contains(n.as_str()))) {
                                rep.count("not-judged:dropped-with-warning");
                            } else {
                                rep.count("unobserved");
                                rep.harness_errors.push(format!("{}: {e}", c.asn(i)));
                            }
                        }
                    }
                }
            }
            Outcome::Err(e) => {
                rep.evaluations += 1;
                rep.count("compile-err");
                rep.sample(json!({"compile_err": e, "asn1": cases[idx[0]].asn(idx[0])}));
            }
            Outcome::Panic(p) => {
                rep.evaluations += 1;
                rep.count("compile-panic");
                rep.sample(json!({"compile_panic": p, "asn1": cases[idx[0]].asn(idx[0])}));
            }
        }
    }
    let answers = match run_driver(&reqs) {
        Ok(a) => a,
        Err(e) => {
            rep.harness_errors.push(e);
            return rep;
        }
    };
    for (k, a) in answers.iter().enumerate() {
        let (i, o) = &meta[k];
        let c = &cases[*i];
        let Some((model, verdict)) = a.split_once(' ') else {
            rep.harness_errors.push(format!("driver answer `{a}`"));
            continue;
        };
        let obs_s = match o {
            Obs::None => "none".to_string(),
            Obs::Attr { size, lo, hi, ext } => format!(
                "{}:{}:{}:{}",
                if *size { "size" } else { "value" },
                lo.map_or("*".into(), |v| v.to_string()),
                hi.map_or("*".into(), |v| v.to_string()),
                if *ext { "ext" } else { "-" }
            ),
            Obs::Bad(_) => unreachable!(),
        };
        let case_json = json!({"ctx": format!("{:?}", c.ctx), "asn1": c.asn(*i), "observed": obs_s, "model": model, "words": c.words,
            "cons": c.cons.iter().map(|k| json!({"sx": k.sx(c.ctx.is_size())})).collect::<Vec<_>>()});
        if k % 1499 == 0 {
            rep.sample(json!({"asn1": c.asn(*i), "observed": obs_s, "answer": a}));
        }
        // Fixed{Octet,Bit}String<n> is the rendering of size(n) for assignments: compare as size:n:n
        let agree = model == obs_s;
        if !agree {
            rep.disagree(case_json.clone());
        }
        if verdict == "ok" {
            rep.count("legal-judged");
        } else if let Some(why) = verdict.strip_prefix("skip:") {
            rep.count(&format!("not-judged:{why}"));
        } else if let Some(rest) = verdict.strip_prefix("bad:") {
            let (classes, msg) = rest.split_once(':').unwrap_or((rest, ""));
            for class in classes.split('+') {
                let class = if class == "unclassified" { "" } else { class };
                rep.unsat(class, agree, json!({"why": msg, "case": case_json}));
            }
        }
    }
    if cfg.replay.is_none() {
        contained_family(&gen_contained(), &mut rep);
        size_with_alphabet_family(&gen_size_with_alphabet(), &mut rep);
    }
    rep
}

const CONTAINED: [(&str, Option<i128>, Option<i128>); 3] = [("Ct-A", Some(0), Some(300)), ("Ct-B", Some(-3), Some(2)), ("Ct-C", Some(7), None)];

/// Contained subtypes as operands: `INTEGER (Ct-A | 0..7)`, `(0..7 ^ Ct-B)`, `(Ct-C EXCEPT 2)`, three operands of
/// one operator with the contained subtype in every position. (constraint text, C04-style s-expression in which the
/// contained subtype is written as the range it stands for, component?)
fn gen_contained() -> Vec<(String, String, bool)> {
    let others: [(Option<i128>, Option<i128>, bool); 5] = [(Some(2), Some(2), true), (Some(0), Some(7), false), (Some(-3), Some(300), false), (None, Some(0), false), (Some(300), Some(300), true)];
    let show = |e: &(Option<i128>, Option<i128>, bool)| if e.2 { e.0.unwrap().to_string() } else { format!("{}..{}", e.0.map_or("MIN".into(), |v| v.to_string()), e.1.map_or("MAX".into(), |v| v.to_string())) };
    let sx = |e: &(Option<i128>, Option<i128>, bool)| if e.2 { format!("( single {} )", e.0.unwrap()) } else { format!("( range {} {} )", sx_opt(&e.0), sx_opt(&e.1)) };
    let mut out = Vec::new();
    for (cn, clo, chi) in CONTAINED {
        let ct = (clo, chi, false);
        for o in &others {
            for (op_txt, op_sx) in [(" | ", "union"), (" ^ ", "inter"), (" EXCEPT ", "except")] {
                for ct_first in [true, false] {
                    let (t, x) = if ct_first {
                        (format!("({cn}{op_txt}{})", show(o)), format!("( chain f f f f {} ( ( {op_sx} {} ) ) )", sx(&ct), sx(o)))
                    } else {
                        (format!("({}{op_txt}{cn})", show(o)), format!("( chain f f f f {} ( ( {op_sx} {} ) ) )", sx(o), sx(&ct)))
                    };
                    for comp in [true, false] {
                        out.push((t.clone(), format!("( {x} )"), comp));
                    }
                }
            }
            // three operands of one operator, the contained subtype in each position
            for (op_txt, op_sx) in [(" | ", "union"), (" ^ ", "inter")] {
                let o2 = (Some(0), Some(2), false);
                for pos in 0..3 {
                    let mut els: Vec<(String, String)> = vec![(show(o), sx(o)), (show(&o2), sx(&o2))];
                    els.insert(pos, (cn.to_string(), sx(&ct)));
                    let t = format!("({})", els.iter().map(|e| e.0.clone()).collect::<Vec<_>>().join(op_txt));
                    let x = format!("( chain f f f f {} ( ( {op_sx} {} ) ( {op_sx} {} ) ) )", els[0].1, els[1].1, els[2].1);
                    out.push((t, format!("( {x} )"), true));
                }
            }
        }
    }
    out
}

fn contained_family(cases: &[(String, String, bool)], rep: &mut Report) {
    let rcfg = rasn_compiler::prelude::RasnConfig::default();
    let defs: String = CONTAINED.iter().map(|(n, lo, hi)| format!("{n} ::= INTEGER ({}..{})\n", lo.map_or("MIN".into(), |v| v.to_string()), hi.map_or("MAX".into(), |v| v.to_string()))).collect();
    let asn = |i: usize| if cases[i].2 { format!("S{i} ::= SEQUENCE {{ f INTEGER {} }}", cases[i].0) } else { format!("A{i} ::= INTEGER {}", cases[i].0) };
    let render = |idx: &[usize]| vec![format!("C04c-Mod DEFINITIONS AUTOMATIC TAGS ::= BEGIN\n{defs}{}\nEND\n", idx.iter().map(|i| asn(*i)).collect::<Vec<_>>().join("\n"))];
    let mut reqs = Vec::new();
    let mut meta = Vec::new();
    for (idx, outcome) in batch_compile(cases.len(), 120, &render, &rcfg) {
        match outcome {
            Outcome::Ok { generated, warnings } => {
                let Ok(mods) = proj::project(&generated) else { continue };
                let Some(m) = mods.first() else { continue };
                for i in idx {
                    rep.evaluations += 1;
                    let probe = Case { ctx: if cases[i].2 { Ctx::IntComp } else { Ctx::IntAssign }, cons: vec![], words: false };
                    match observe(m, &probe, i) {
                        Ok(Obs::Bad(b)) => rep.harness_errors.push(format!("unparsed annotation `{b}` for {}", asn(i))),
                        Ok(o) => {
                            rep.count("contained-subtype-operand");
                            rep.distinct.insert(format!("contained|{}|{}", cases[i].0, cases[i].2));
                            let obs_sx = match &o {
                                Obs::None => "none".to_string(),
                                Obs::Attr { size, lo, hi, ext } => format!("( attr {} {} {} {} )", sx_bool(*size), sx_opt(lo), sx_opt(hi), sx_bool(*ext)),
                                Obs::Bad(_) => unreachable!(),
                            };
                            reqs.push(format!("c04sound t f {} {}", cases[i].1, obs_sx));
                            meta.push((i, obs_sx));
                        }
                        Err(_) => {
                            if warnings.iter().any(|w| w.contains("Empty intersection") || w.contains(&format!("S{i}")) || w.contains(&format!("A{i}"))) {
                                rep.count("not-judged:dropped-with-warning");
                            } else {
                                rep.count("contained:unobserved");
                            }
                        }
                    }
                }
            }
            Outcome::Err(e) => {
                rep.count("compile-err");
                rep.sample(json!({"compile_err": e, "asn1": asn(idx[0])}));
            }
            Outcome::Panic(p) => rep.harness_errors.push(format!("panic on {}: {p}", asn(idx[0]))),
        }
    }
    match run_driver(&reqs) {
        Ok(ans) => {
            for (k, a) in ans.iter().enumerate() {
                let (i, obs) = &meta[k];
                let verdict = a.split_once(' ').map(|x| x.1).unwrap_or(a);
                if let Some(rest) = verdict.strip_prefix("bad:") {
                    rep.unsat("", false, json!({"why": rest, "case": {"contained_text": cases[*i].0, "contained_sx": cases[*i].1, "contained_component": cases[*i].2, "asn1": asn(*i), "observed": obs}}));
                } else if verdict.starts_with("skip") {
                    rep.count("not-judged:empty-set");
                } else if verdict != "ok" {
                    rep.harness_errors.push(format!("driver answer `{a}`"));
                }
            }
        }
        Err(e) => rep.harness_errors.push(e),
    }
}

/// A size constraint intersected, inside one constraint, with a permitted alphabet: the alphabet has no say in the
/// size bound, so the size annotation must be the one the size constraint alone gets. (type, size text, alphabet text,
/// alphabet first?, component?)
fn gen_size_with_alphabet() -> Vec<(String, String, String, bool, bool)> {
    let mut out = Vec::new();
    for ty in ["IA5String", "PrintableString", "VisibleString", "NumericString", "BMPString", "UTF8String"] {
        for size in ["5", "5, ...", "2..8", "2..8, ...", "0..MAX", "3..MAX, ...", "1 | 4", "2..4 | 6..8, ..."] {
            for alpha in ["\"1\"..\"6\"", "\"123\"", "\"1\"..\"3\" | \"7\"", "\"1\"..\"6\", ..."] {
                for alpha_first in [false, true] {
                    for comp in [true, false] {
                        out.push((ty.to_string(), size.to_string(), alpha.to_string(), alpha_first, comp));
                    }
                }
            }
        }
    }
    out
}

fn size_with_alphabet_family(cases: &[(String, String, String, bool, bool)], rep: &mut Report) {
    let rcfg = rasn_compiler::prelude::RasnConfig::default();
    let both = |i: usize| {
        let (ty, size, alpha, alpha_first, comp) = &cases[i];
        let combined = if *alpha_first { format!("(FROM ({alpha}) ^ SIZE ({size}))") } else { format!("(SIZE ({size}) ^ FROM ({alpha}))") };
        if *comp {
            (format!("S{i} ::= SEQUENCE {{ f {ty} (SIZE ({size})) }}"), format!("S{} ::= SEQUENCE {{ f {ty} {combined} }}", i + 100_000))
        } else {
            (format!("A{i} ::= {ty} (SIZE ({size}))"), format!("A{} ::= {ty} {combined}", i + 100_000))
        }
    };
    let render = |idx: &[usize]| vec![format!("C04a-Mod DEFINITIONS AUTOMATIC TAGS ::= BEGIN\n{}\nEND\n", idx.iter().map(|i| { let (a, b) = both(*i); format!("{a}\n{b}") }).collect::<Vec<_>>().join("\n"))];
    for (idx, outcome) in batch_compile(cases.len(), 60, &render, &rcfg) {
        match outcome {
            Outcome::Ok { generated, warnings } => {
                let Ok(mods) = proj::project(&generated) else { continue };
                let Some(m) = mods.first() else { continue };
                for i in idx {
                    rep.evaluations += 1;
                    let probe = Case { ctx: if cases[i].4 { Ctx::Ia5Comp } else { Ctx::IntAssign }, cons: vec![], words: false };
                    let show = |o: &Obs| match o {
                        Obs::None => "none".to_string(),
                        Obs::Attr { size, lo, hi, ext } => format!("( attr {} {} {} {} )", sx_bool(*size), sx_opt(lo), sx_opt(hi), sx_bool(*ext)),
                        Obs::Bad(b) => format!("unparsed {b}"),
                    };
                    match (observe(m, &probe, i), observe(m, &probe, i + 100_000)) {
                        (Ok(a), Ok(b)) => {
                            rep.count("size-with-alphabet");
                            rep.distinct.insert(format!("size-alpha|{:?}", cases[i]));
                            if show(&a) != show(&b) {
                                let (x, y) = both(i);
                                rep.unsat("", false, json!({"why": format!("the size annotation of `{y}` is {} while the size constraint alone (`{x}`) gives {}", show(&b), show(&a)), "case": {"size_alphabet": [cases[i].0, cases[i].1, cases[i].2, cases[i].3, cases[i].4]}}));
                            }
                        }
                        _ => {
                            let n = if cases[i].4 { "S" } else { "A" };
                            if warnings.iter().any(|w| w.contains(&format!("{n}{i}")) || w.contains(&format!("{n}{}", i + 100_000))) {
                                rep.count("not-judged:dropped-with-warning");
                            } else {
                                rep.count("size-with-alphabet:unobserved");
                            }
                        }
                    }
                }
            }
            Outcome::Err(e) => {
                rep.count("compile-err");
                rep.sample(json!({"compile_err": e, "asn1": both(idx[0]).1}));
            }
            Outcome::Panic(p) => rep.harness_errors.push(format!("panic on {}: {p}", both(idx[0]).1)),
        }
    }
}

fn case_from_json(v: &serde_json::Value) -> Option<Case> {
    let v = v.get("case").unwrap_or(v);
    let ctx = match v["ctx"].as_str()? {
        "IntAssign" => Ctx::IntAssign,
        "IntComp" => Ctx::IntComp,
        "IntRef" => Ctx::IntRef,
        "IntValueRef" => Ctx::IntValueRef,
        "IntOneRef" => Ctx::IntOneRef,
        "IntInlineNamed" => Ctx::IntInlineNamed,
        "IntNamedRef" => Ctx::IntNamedRef,
        "IntNamedComp" => Ctx::IntNamedComp,
        "OctetComp" => Ctx::OctetComp,
        "BitComp" => Ctx::BitComp,
        "Ia5Comp" => Ctx::Ia5Comp,
        "SeqOfComp" => Ctx::SeqOfComp,
        "OctetAssign" => Ctx::OctetAssign,
        "BitAssign" => Ctx::BitAssign,
        "Ia5Assign" => Ctx::Ia5Assign,
        "SeqOfAssign" => Ctx::SeqOfAssign,
        _ => return None,
    };
    let mut cons = Vec::new();
    for c in v["cons"].as_array()? {
        use crate::gen_types::{parse_sx, Sx};
        let sx = parse_sx(c["sx"].as_str()?)?;
        let Sx::List(l) = sx else { return None };
        let atom = |s: &Sx| if let Sx::Atom(a) = s { Some(a.clone()) } else { None };
        let opt = |s: &Sx| -> Option<Option<i128>> {
            match s {
                Sx::Atom(a) if a == "none" => Some(None),
                Sx::List(x) => Some(Some(atom(&x[1])?.parse().ok()?)),
                _ => None,
            }
        };
        let elem = |s: &Sx| -> Option<Elem> {
            let Sx::List(x) = s else { return None };
            match atom(&x[0])?.as_str() {
                "single" => Some(Elem::Single(atom(&x[1])?.parse().ok()?)),
                "range" => Some(Elem::Range(opt(&x[1])?, opt(&x[2])?)),
                _ => None,
            }
        };
        let first = elem(&l[5])?;
        let Sx::List(restl) = &l[6] else { return None };
        let mut rest = Vec::new();
        for r in restl {
            let Sx::List(p) = r else { return None };
            let o = match atom(&p[0])?.as_str() { "inter" => Op::Inter, "union" => Op::Union, _ => Op::Except };
            rest.push((o, elem(&p[1])?));
        }
        let (m, om) = (atom(&l[1])? == "t", atom(&l[2])? == "t");
        // a set-level marker on a value constraint is the parenthesised spelling
        let paren = om && !ctx.is_size();
        cons.push(Cons { first, rest, marker: m || paren, outer_marker: om && !paren, all_except: atom(&l[4])? == "t", paren });
    }
    Some(Case { ctx, cons, words: v["words"].as_bool().unwrap_or(false) })
}

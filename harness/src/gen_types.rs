//! Abstract syntax of the type notation generator G (DESIGN.md §3), rendering to ASN.1 text and to
//! the s-expression wire format, a seeded random generator, and observed-facts encoding.
use crate::proj::{Attrs, ItemFacts, ItemKind};
use crate::util::*;

#[derive(Clone, Debug, PartialEq)]
pub struct Tag {
    pub class: &'static str, // universal | application | private | context
    pub num: u64,
    pub kw: &'static str, // none | implicit | explicit
}

#[derive(Clone, Debug, PartialEq)]
pub enum Opt {
    Req,
    Optional,
    Default(String),
}

#[derive(Clone, Debug, PartialEq)]
pub enum Ty {
    Prim(&'static str),
    Ref(String),
    Seq { set: bool, root: Vec<Comp>, marker: bool, adds: Vec<Add> },
    Choice { root: Vec<Comp>, marker: bool, adds: Vec<Add> },
    Enum { root: Vec<String>, marker: bool, adds: Vec<String> },
    SeqOf { set: bool, elem: Box<Ty>, elem_tag: Option<Tag> },
}

#[derive(Clone, Debug, PartialEq)]
pub struct Comp {
    pub name: String,
    pub tag: Option<Tag>,
    pub ty: Ty,
    pub opt: Opt,
}

#[derive(Clone, Debug, PartialEq)]
pub enum Add {
    Comp(Comp),
    Group(Option<u32>, Vec<Comp>),
}

pub fn tag_asn(t: &Tag) -> String {
    let cls = match t.class {
        "universal" => "UNIVERSAL ",
        "application" => "APPLICATION ",
        "private" => "PRIVATE ",
        _ => "",
    };
    let kw = match t.kw {
        "implicit" => " IMPLICIT",
        "explicit" => " EXPLICIT",
        _ => "",
    };
    format!("[{cls}{}]{kw} ", t.num)
}

pub fn tag_sx(t: &Option<Tag>) -> String {
    match t {
        None => "none".into(),
        Some(t) => format!("( some ( {} {} {} ) )", t.class, t.num, t.kw),
    }
}

impl Comp {
    pub fn asn(&self) -> String {
        let opt = match &self.opt {
            Opt::Req => String::new(),
            Opt::Optional => " OPTIONAL".into(),
            Opt::Default(v) => format!(" DEFAULT {v}"),
        };
        format!("{} {}{}{}", self.name, self.tag.as_ref().map(tag_asn).unwrap_or_default(), self.ty.asn(), opt)
    }
    pub fn sx(&self) -> String {
        let o = match self.opt {
            Opt::Req => "req",
            Opt::Optional => "opt",
            Opt::Default(_) => "def",
        };
        format!("( comp {} {} {} {} )", hex(&self.name), tag_sx(&self.tag), self.ty.sx(), o)
    }
}

fn body_asn(root: &[Comp], marker: bool, adds: &[Add]) -> String {
    let mut parts: Vec<String> = root.iter().map(|c| c.asn()).collect();
    if marker {
        parts.push("...".into());
    }
    for a in adds {
        match a {
            Add::Comp(c) => parts.push(c.asn()),
            Add::Group(v, cs) => parts.push(format!(
                "[[ {}{} ]]",
                v.map(|n| format!("{n}: ")).unwrap_or_default(),
                cs.iter().map(|c| c.asn()).collect::<Vec<_>>().join(", ")
            )),
        }
    }
    format!("{{ {} }}", parts.join(", "))
}

fn adds_sx(adds: &[Add]) -> String {
    sx_list(adds.iter().map(|a| match a {
        Add::Comp(c) => format!("( c {} )", c.sx()),
        Add::Group(v, cs) => format!("( g {} {} )", sx_opt(v), sx_list(cs.iter().map(|c| c.sx()))),
    }))
}

impl Ty {
    pub fn asn(&self) -> String {
        match self {
            Ty::Prim(p) => p.to_string(),
            Ty::Ref(r) => r.clone(),
            Ty::Seq { set, root, marker, adds } => {
                format!("{} {}", if *set { "SET" } else { "SEQUENCE" }, body_asn(root, *marker, adds))
            }
            Ty::Choice { root, marker, adds } => format!("CHOICE {}", body_asn(root, *marker, adds)),
            Ty::Enum { root, marker, adds } => {
                let mut parts: Vec<String> = root.clone();
                if *marker {
                    parts.push("...".into());
                }
                parts.extend(adds.iter().cloned());
                format!("ENUMERATED {{ {} }}", parts.join(", "))
            }
            Ty::SeqOf { set, elem, elem_tag } => format!(
                "{} OF {}{}",
                if *set { "SET" } else { "SEQUENCE" },
                elem_tag.as_ref().map(tag_asn).unwrap_or_default(),
                elem.asn()
            ),
        }
    }
    pub fn sx(&self) -> String {
        match self {
            Ty::Prim(p) => format!("( prim {} )", hex(p)),
            Ty::Ref(r) => format!("( ref {} )", hex(r)),
            Ty::Seq { set, root, marker, adds } => format!(
                "( seq {} {} {} {} )",
                sx_bool(*set),
                sx_list(root.iter().map(|c| c.sx())),
                sx_bool(*marker),
                adds_sx(adds)
            ),
            Ty::Choice { root, marker, adds } => {
                format!("( choice {} {} {} )", sx_list(root.iter().map(|c| c.sx())), sx_bool(*marker), adds_sx(adds))
            }
            Ty::Enum { root, marker, adds } => format!(
                "( enum {} {} {} )",
                sx_list(root.iter().map(|n| hex(n))),
                sx_bool(*marker),
                sx_list(adds.iter().map(|n| hex(n)))
            ),
            Ty::SeqOf { set, elem, elem_tag } => format!("( seqof {} {} {} )", sx_bool(*set), elem.sx(), tag_sx(elem_tag)),
        }
    }
    pub fn depth(&self) -> usize {
        let comps = |root: &[Comp], adds: &[Add]| {
            root.iter()
                .map(|c| c.ty.depth())
                .chain(adds.iter().flat_map(|a| match a {
                    Add::Comp(c) => vec![c.ty.depth()],
                    Add::Group(_, cs) => cs.iter().map(|c| c.ty.depth()).collect(),
                }))
                .max()
                .unwrap_or(0)
        };
        match self {
            Ty::Seq { root, adds, .. } | Ty::Choice { root, adds, .. } => 1 + comps(root, adds),
            Ty::SeqOf { elem, .. } => 1 + elem.depth(),
            _ => 0,
        }
    }
}

pub const PRIMS: [&str; 20] = [
    "NULL", "BOOLEAN", "INTEGER", "OCTET STRING", "BIT STRING", "OBJECT IDENTIFIER", "UTF8String", "IA5String", "PrintableString",
    "NumericString", "VisibleString", "BMPString", "UniversalString", "GeneralString", "TeletexString", "GraphicString", "UTCTime",
    "GeneralizedTime", "ANY", "T61String",
];

/// referenced definitions every generated module carries
pub const BASE_DEFS: &str = "Ref-Int ::= INTEGER\nRef-Seq ::= SEQUENCE { x BOOLEAN }\nRef-Choice ::= CHOICE { a NULL, b BOOLEAN }\nRef-Set ::= SET { y INTEGER }\nRef-One ::= INTEGER (1..1)\nRef-Zero ::= INTEGER (0)\n";
// (Ref-One / Ref-Zero: types that permit a single value are types like any other)
pub const REFS: [&str; 6] = ["Ref-Int", "Ref-Seq", "Ref-Choice", "Ref-Set", "Ref-One", "Ref-Zero"];

pub struct GenCfg {
    pub max_depth: usize,
    pub max_comps: usize,
    pub tags: bool,
    pub groups: bool,
    pub defaults: bool,
}

const NAME_POOL: [&str; 33] = [
    "alpha", "beta", "gamma", "delta", "item-one", "itemTwo", "x1", "y2-z", "count", "flag", "payload", "kind", "inner", "outer", "left",
    "right", "head", "tail-end", "aB", "c-d-e", "value1", "node", "leaf", "q",
    // TypeScript keywords that are ordinary ASN.1 identifiers (and no Rust keywords)
    "class", "default", "case", "with", "delete", "new", "void", "function", "var",
];

pub struct TyGen<'a> {
    pub rng: &'a mut Rng,
    pub cfg: GenCfg,
}

impl<'a> TyGen<'a> {
    fn names(&mut self, n: usize) -> Vec<String> {
        // distinct names, distinct also after hyphen removal / case folding
        let mut out: Vec<String> = Vec::new();
        let mut k = 0;
        while out.len() < n {
            let base = *self.rng.pick(&NAME_POOL);
            let cand = if k < 40 { base.to_string() } else { format!("{base}{k}") };
            k += 1;
            let norm = |s: &str| s.replace('-', "").to_lowercase();
            if !out.iter().any(|o| norm(o) == norm(&cand)) {
                out.push(cand);
            }
        }
        out
    }
    pub fn tag(&mut self) -> Option<Tag> {
        if !self.cfg.tags || !self.rng.chance(1, 3) {
            return None;
        }
        Some(Tag {
            class: *self.rng.pick(&["context", "context", "application", "private", "universal"]),
            num: self.rng.below(40) as u64,
            kw: *self.rng.pick(&["none", "none", "implicit", "explicit"]),
        })
    }
    fn comp(&mut self, name: String, depth: usize, choice: bool) -> Comp {
        let ty = self.ty(depth);
        let opt = if choice {
            Opt::Req
        } else {
            match self.rng.below(6) {
                0 | 1 => Opt::Optional,
                2 if self.cfg.defaults => match &ty {
                    Ty::Prim("BOOLEAN") => Opt::Default("TRUE".into()),
                    Ty::Prim("INTEGER") => Opt::Default("5".into()),
                    Ty::Prim("NULL") => Opt::Default("NULL".into()),
                    _ => Opt::Req,
                },
                _ => Opt::Req,
            }
        };
        Comp { name, tag: self.tag(), ty, opt }
    }
    fn body(&mut self, depth: usize, choice: bool) -> (Vec<Comp>, bool, Vec<Add>) {
        self.body2(depth, choice, true)
    }
    /// `groups_ok`: `[[ ]]` is only accepted by the lexer inside SEQUENCE
    fn body2(&mut self, depth: usize, choice: bool, groups_ok: bool) -> (Vec<Comp>, bool, Vec<Add>) {
        let total = if choice { 1 + self.rng.below(self.cfg.max_comps.max(1)) } else { self.rng.below(self.cfg.max_comps + 1) };
        let marker = self.rng.chance(1, 2);
        let n_root = if marker { self.rng.below(total + 1) } else { total };
        let n_root = if choice && !marker { total.max(1) } else { n_root };
        let names = self.names(total + 8);
        let mut it = names.into_iter();
        let root: Vec<Comp> = (0..n_root).map(|_| self.comp(it.next().unwrap(), depth, choice)).collect();
        let mut adds = Vec::new();
        if marker {
            let mut left = total - n_root;
            while left > 0 {
                if self.cfg.groups && groups_ok && !choice && self.rng.chance(1, 3) {
                    let k = 1 + self.rng.below(left.min(3));
                    let cs: Vec<Comp> = (0..k).map(|_| self.comp(it.next().unwrap(), depth, false)).collect();
                    let ver = self.rng.chance(1, 2).then(|| 2 + self.rng.below(5) as u32);
                    adds.push(Add::Group(ver, cs));
                    left -= k;
                } else {
                    adds.push(Add::Comp(self.comp(it.next().unwrap(), depth, choice)));
                    left -= 1;
                }
            }
        }
        let mut root = root;
        if choice && root.is_empty() && adds.is_empty() {
            root.push(self.comp(it.next().unwrap(), depth, true));
        }
        (root, marker, adds)
    }
    pub fn ty(&mut self, depth: usize) -> Ty {
        let r = self.rng.below(100);
        if depth >= self.cfg.max_depth || r < 45 {
            return Ty::Prim(*self.rng.pick(&PRIMS));
        }
        if r < 60 {
            return Ty::Ref(self.rng.pick(&REFS).to_string());
        }
        if r < 75 {
            let set = self.rng.chance(1, 4);
            let (root, marker, adds) = self.body2(depth + 1, false, !set);
            return Ty::Seq { set, root, marker, adds };
        }
        if r < 83 {
            let (root, marker, adds) = self.body(depth + 1, true);
            return Ty::Choice { root, marker, adds };
        }
        if r < 90 {
            let n = 1 + self.rng.below(4);
            let names = self.names(n + 3);
            let marker = self.rng.chance(1, 2);
            let k = if marker { self.rng.below(n + 1).max(1) } else { n };
            return Ty::Enum { root: names[..k].to_vec(), marker, adds: if marker { names[k..n].to_vec() } else { vec![] } };
        }
        let elem = self.ty(depth + 1);
        let elem_tag = if matches!(elem, Ty::Ref(_)) { None } else { self.tag() };
        Ty::SeqOf { set: self.rng.chance(1, 3), elem: Box::new(elem), elem_tag }
    }
    /// a top-level constructed type
    pub fn top(&mut self) -> Ty {
        loop {
            let t = self.ty(0);
            if !matches!(t, Ty::Prim(_) | Ty::Ref(_)) {
                return t;
            }
        }
    }
}

// observed facts → s-expressions -------------------------------------------------------------------

fn tagf_sx(a: &Attrs) -> String {
    match a.get("tag") {
        None => "none".into(),
        Some(v) => {
            let (inner, explicit) = match v.strip_prefix("explicit(").and_then(|x| x.strip_suffix(')')) {
                Some(i) => (i, true),
                None => (v, false),
            };
            let parts: Vec<&str> = inner.split(',').collect();
            if parts.len() == 2 {
                format!("( some ( {} {} {} ) )", parts[0], parts[1], sx_bool(explicit))
            } else {
                format!("( some ( bad{} 0 f ) )", hex(v))
            }
        }
    }
}

fn ext_sx(a: &Attrs) -> &'static str {
    if a.has("extension_addition_group") {
        "group"
    } else if a.has("extension_addition") {
        "addition"
    } else {
        "none"
    }
}

fn strip_box(ty: &str) -> (String, bool) {
    if ty.contains("Box<") {
        // remove one `Box<` … matching `>`
        let i = ty.find("Box<").unwrap();
        let mut depth = 0;
        let mut end = None;
        for (k, c) in ty[i + 4..].char_indices() {
            match c {
                '<' => depth += 1,
                '>' => {
                    if depth == 0 {
                        end = Some(i + 4 + k);
                        break;
                    }
                    depth -= 1;
                }
                _ => {}
            }
        }
        if let Some(e) = end {
            return (format!("{}{}{}", &ty[..i], &ty[i + 4..e], &ty[e + 1..]), true);
        }
    }
    (ty.to_string(), false)
}

pub fn field_sx(name: &str, ty: &str, a: &Attrs) -> String {
    let (ty, boxed) = strip_box(ty);
    format!(
        "( f {} {} {} {} {} {} {} )",
        hex(name),
        hex(&ty),
        tagf_sx(a),
        ext_sx(a),
        sx_bool(a.has("default")),
        sx_opt(&a.get("identifier").map(|v| hex(v.trim_matches('"')))),
        sx_bool(boxed)
    )
}

pub fn item_sx(it: &ItemFacts) -> Option<String> {
    let (kind, fields): (&str, Vec<String>) = match &it.kind {
        ItemKind::Struct { fields, tuple: false } => ("struct", fields.iter().map(|f| field_sx(&f.name, &f.ty, &f.attrs)).collect()),
        ItemKind::Struct { fields, tuple: true } => ("newtype", fields.iter().map(|f| field_sx(&f.name, &f.ty, &f.attrs)).collect()),
        ItemKind::Enum { variants } => (
            if it.attrs.has("choice") { "choice" } else { "enumerated" },
            variants.iter().map(|v| field_sx(&v.name, v.payload.as_deref().unwrap_or(""), &v.attrs)).collect(),
        ),
        _ => return None,
    };
    Some(format!(
        "( item {} {} {} {} {} {} {} )",
        hex(&it.name),
        kind,
        sx_bool(it.attrs.has("set")),
        sx_bool(it.attrs.non_exhaustive),
        sx_bool(it.attrs.has("automatic_tags")),
        tagf_sx(&it.attrs),
        sx_list(fields)
    ))
}

// s-expression → AST (for replays) --------------------------------------------------------------------
#[derive(Debug, Clone)]
pub enum Sx {
    Atom(String),
    List(Vec<Sx>),
}

pub fn parse_sx(s: &str) -> Option<Sx> {
    let toks: Vec<&str> = s.split(' ').filter(|t| !t.is_empty()).collect();
    fn go(toks: &[&str], pos: &mut usize) -> Option<Sx> {
        let t = *toks.get(*pos)?;
        *pos += 1;
        if t == "(" {
            let mut v = Vec::new();
            while *toks.get(*pos)? != ")" {
                v.push(go(toks, pos)?);
            }
            *pos += 1;
            Some(Sx::List(v))
        } else {
            Some(Sx::Atom(t.to_string()))
        }
    }
    let mut pos = 0;
    go(&toks, &mut pos)
}

fn leak(s: String) -> &'static str {
    Box::leak(s.into_boxed_str())
}

impl Sx {
    fn atom(&self) -> Option<&str> {
        match self {
            Sx::Atom(a) => Some(a),
            _ => None,
        }
    }
    fn list(&self) -> Option<&[Sx]> {
        match self {
            Sx::List(l) => Some(l),
            _ => None,
        }
    }
    fn text(&self) -> Option<String> {
        unhex(self.atom()?)
    }
    fn boolean(&self) -> Option<bool> {
        Some(self.atom()? == "t")
    }
}

pub fn tag_from_sx(s: &Sx) -> Option<Option<Tag>> {
    match s {
        Sx::Atom(a) if a == "none" => Some(None),
        Sx::List(l) if l.len() == 2 => {
            let t = l[1].list()?;
            Some(Some(Tag { class: leak(t[0].atom()?.to_string()), num: t[1].atom()?.parse().ok()?, kw: leak(t[2].atom()?.to_string()) }))
        }
        _ => None,
    }
}

fn comp_from_sx(s: &Sx) -> Option<Comp> {
    let l = s.list()?;
    let opt = match l[4].atom()? {
        "opt" => Opt::Optional,
        "def" => Opt::Default("?".into()),
        _ => Opt::Req,
    };
    let ty = Ty::from_sx(&l[3])?;
    let opt = match (opt, &ty) {
        (Opt::Default(_), Ty::Prim("BOOLEAN")) => Opt::Default("TRUE".into()),
        (Opt::Default(_), Ty::Prim("INTEGER")) => Opt::Default("5".into()),
        (Opt::Default(_), _) => Opt::Default("NULL".into()),
        (o, _) => o,
    };
    Some(Comp { name: l[1].text()?, tag: tag_from_sx(&l[2])?, ty, opt })
}

fn add_from_sx(s: &Sx) -> Option<Add> {
    let l = s.list()?;
    match l[0].atom()? {
        "c" => Some(Add::Comp(comp_from_sx(&l[1])?)),
        "g" => {
            let v = match &l[1] {
                Sx::Atom(_) => None,
                Sx::List(x) => x[1].atom()?.parse().ok(),
            };
            Some(Add::Group(v, l[2].list()?.iter().map(comp_from_sx).collect::<Option<Vec<_>>>()?))
        }
        _ => None,
    }
}

impl Ty {
    pub fn from_sx(s: &Sx) -> Option<Ty> {
        let l = s.list()?;
        match l[0].atom()? {
            "prim" => {
                let n = l[1].text()?;
                Some(Ty::Prim(PRIMS.iter().find(|p| **p == n).copied().unwrap_or(leak(n))))
            }
            "ref" => Some(Ty::Ref(l[1].text()?)),
            "seq" => Some(Ty::Seq {
                set: l[1].boolean()?,
                root: l[2].list()?.iter().map(comp_from_sx).collect::<Option<Vec<_>>>()?,
                marker: l[3].boolean()?,
                adds: l[4].list()?.iter().map(add_from_sx).collect::<Option<Vec<_>>>()?,
            }),
            "choice" => Some(Ty::Choice {
                root: l[1].list()?.iter().map(comp_from_sx).collect::<Option<Vec<_>>>()?,
                marker: l[2].boolean()?,
                adds: l[3].list()?.iter().map(add_from_sx).collect::<Option<Vec<_>>>()?,
            }),
            "enum" => Some(Ty::Enum {
                root: l[1].list()?.iter().map(|x| x.text()).collect::<Option<Vec<_>>>()?,
                marker: l[2].boolean()?,
                adds: l[3].list()?.iter().map(|x| x.text()).collect::<Option<Vec<_>>>()?,
            }),
            "seqof" => Some(Ty::SeqOf { set: l[1].boolean()?, elem: Box::new(Ty::from_sx(&l[2])?), elem_tag: tag_from_sx(&l[3])? }),
            _ => None,
        }
    }
}

//! Observation of a whole compilation and its comparison with the pipeline skeleton model
//! (lean/RasnModel/Io/Pipeline.lean) — shared by C10 / C11 / C12.
use crate::modset::*;
use crate::util::*;
use serde_json::{json, Value};

pub struct Obs {
    pub outcome: Outcome,
    pub warnings: Vec<String>,
    /// (normalised module name, items) in textual order
    pub mods: Vec<(String, Vec<(String, String)>)>,
    pub parse_error: Option<String>,
}

pub fn observe(sources: &[String]) -> Obs {
    let outcome = compile_rasn(sources);
    observe_outcome(outcome)
}

pub fn observe_outcome(outcome: Outcome) -> Obs {
    match &outcome {
        Outcome::Ok { generated, warnings } => {
            let (mods, parse_error) = match module_items(generated) {
                Ok(m) => (m, None),
                Err(e) => (vec![], Some(e)),
            };
            Obs { warnings: warnings.clone(), mods, parse_error, outcome }
        }
        _ => Obs { outcome, warnings: vec![], mods: vec![], parse_error: None },
    }
}

/// sources: each a list of modules
pub fn render(sources: &[Vec<M>]) -> Vec<String> {
    sources.iter().map(|ms| ms.iter().map(|m| m.text()).collect::<Vec<_>>().join("\n")).collect()
}

pub fn flatten(sources: &[Vec<M>]) -> Vec<(&M, &D)> {
    sources.iter().flat_map(|ms| ms.iter().flat_map(|m| m.defs.iter().map(move |d| (m, d)))).collect()
}

fn named(warnings: &[String], marker: &str, name: &str) -> bool {
    let key = format!("{marker} {name}:");
    warnings.iter().any(|w| w.contains(&key))
}

/// the warning `Validator::new` gives for a definition that a later one of the same bare name replaces
pub const REPLACED: &str = "is replaced by a later definition of the same name";

pub fn val_warned(warnings: &[String], name: &str) -> bool {
    let key = format!("validating PDU {name}:");
    warnings.iter().any(|w| w.contains(&key) && !w.contains(REPLACED))
}

/// (module, name) of every definition reported as replaced, sorted
pub fn replaced_warned(warnings: &[String]) -> Vec<(String, String)> {
    let mut out: Vec<(String, String)> = warnings
        .iter()
        .filter(|w| w.contains(REPLACED))
        .filter_map(|w| {
            let name = w.split("validating PDU ").nth(1)?.split(':').next()?.to_string();
            let module = w.split("The definition in module ").nth(1)?.split(' ').next()?.to_string();
            Some((module, name))
        })
        .collect();
    out.sort();
    out
}
pub fn gen_warned(warnings: &[String], name: &str) -> bool {
    named(warnings, "generating bindings for", name)
}

pub const ANON_REAL: &str = "Real types are currently unsupported";
pub const ANON_VIDEOTEX: &str = "VideotexString is currently unsupported";

/// classification of every definition from the observation: (valid, gen)
pub fn classify(flat: &[(&M, &D)], warnings: &[String]) -> Vec<(bool, bool)> {
    let mut real = warnings.iter().filter(|w| w.contains(ANON_REAL) && !w.contains("bindings for")).count();
    let mut videotex = warnings.iter().filter(|w| w.contains(ANON_VIDEOTEX) && !w.contains("bindings for")).count();
    // the model decides which of two equally named definitions survives: attribute anonymous warnings from the back
    let mut out = vec![(true, true); flat.len()];
    for (i, (_, d)) in flat.iter().enumerate().rev() {
        let valid = !val_warned(warnings, &d.name);
        let mut gen = !gen_warned(warnings, &d.name);
        // a definition shadowed by a later one of the same bare name never reaches the generator
        let shadowed = flat[i + 1..].iter().any(|(_, d2)| d2.name == d.name);
        if valid && gen && !shadowed {
            match d.fault.as_deref() {
                Some("REAL") if real > 0 => {
                    real -= 1;
                    gen = false;
                }
                Some("VIDEOTEX") if videotex > 0 => {
                    videotex -= 1;
                    gen = false;
                }
                _ => {}
            }
        }
        out[i] = (valid, gen);
    }
    out
}

pub fn pipe_request(flat: &[(&M, &D)], cls: &[(bool, bool)]) -> String {
    let defs = flat.iter().zip(cls).map(|((m, d), (v, g))| {
        format!("( {} {} {} {} {} {} )", hex(&d.name), hex(&m.name), m.tagging, sx_bool(m.ext), sx_bool(*v), sx_bool(*g))
    });
    format!("pipe 0 f {}", sx_list(defs))
}

#[derive(Debug, Clone, PartialEq)]
pub enum Ev {
    E { module: String, name: String, state: String },
    G { module: String, name: String },
    V { name: String },
    R { module: String, name: String },
}

pub fn parse_events(ans: &str) -> Result<Vec<Ev>, String> {
    if ans == "-" {
        return Ok(vec![]);
    }
    ans.split(' ')
        .map(|t| {
            let p: Vec<&str> = t.split(':').collect();
            match p.as_slice() {
                ["E", m, n, s] => Ok(Ev::E { module: m.to_string(), name: n.to_string(), state: s.to_string() }),
                ["G", m, n] => Ok(Ev::G { module: m.to_string(), name: n.to_string() }),
                ["V", n] => Ok(Ev::V { name: n.to_string() }),
                ["R", m, n] => Ok(Ev::R { module: m.to_string(), name: n.to_string() }),
                _ => Err(format!("driver answer `{ans}`")),
            }
        })
        .collect()
}

/// The model's emitted sequence, restricted to definitions that have a primary Rust item:
/// (normalised module, rust name, backend state the model generated it under)
pub fn predicted_emitted(events: &[Ev], flat: &[(&M, &D)]) -> Vec<(String, String, String)> {
    events
        .iter()
        .filter_map(|e| match e {
            Ev::E { module, name, state } => {
                // the LAST definition of that bare name is the one the index keeps
                let d = flat.iter().rev().find(|(m, d)| &d.name == name && &m.name == module).map(|x| x.1)?;
                if d.no_output() || d.shape == "UpObj" {
                    None
                } else {
                    Some((norm_mod(module), d.rust_name(), state.clone()))
                }
            }
            _ => None,
        })
        .collect()
}

/// The implementation's emitted sequence: primary items (identifier equals the Rust name of a definition of that module)
pub fn observed_emitted(obs: &Obs, sources: &[Vec<M>]) -> Vec<(String, String)> {
    let mut out = Vec::new();
    for (mn, items) in &obs.mods {
        let defs: Vec<&D> = sources.iter().flatten().filter(|m| &norm_mod(&m.name) == mn).flat_map(|m| m.defs.iter()).collect();
        for (id, _) in items {
            if defs.iter().any(|d| !d.no_output() && &d.rust_name() == id) {
                out.push((mn.clone(), id.clone()));
            }
        }
    }
    out
}

/// Compare the model's events with the observation. Returns a description of the first difference.
pub fn compare(events: &[Ev], flat: &[(&M, &D)], obs: &Obs, sources: &[Vec<M>]) -> Option<Value> {
    let pred: Vec<(String, String)> = predicted_emitted(events, flat).into_iter().map(|(m, n, _)| (m, n)).collect();
    let seen = observed_emitted(obs, sources);
    if pred != seen {
        let k = pred.iter().zip(seen.iter()).take_while(|(a, b)| a == b).count();
        return Some(json!({"what": "emitted sequence differs", "at": k, "model": pred.get(k), "implementation": seen.get(k),
            "model_len": pred.len(), "implementation_len": seen.len()}));
    }
    // the definitions reported as replaced by a later one of the same bare name
    let mut pred_r: Vec<(String, String)> = events.iter().filter_map(|e| match e { Ev::R { module, name } => Some((module.clone(), name.clone())), _ => None }).collect();
    pred_r.sort();
    let seen_r = replaced_warned(&obs.warnings);
    if pred_r != seen_r {
        return Some(json!({"what": "definitions reported as replaced differ", "model": pred_r, "implementation": seen_r}));
    }
    None
}

def dummyHeader : String := "asn1 { dummy(999) header(999) }\n\nDEFINITIONS AUTOMATIC TAGS::= BEGIN\n"

def dummyFooter : String := "\nEND"

def macroNeedles : List String := ["BEGIN"]

def macroChain : List String := ["add_asn_literal", "compile_to_string", "unwrap", ".generated", "parse", "unwrap"]
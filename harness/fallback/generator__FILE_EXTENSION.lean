def rasnExt : String := ".rs"
def tsExt : String := ".ts"
def numeric_charset : RawTable := RawTable.explicit [32, 48, 49, 50, 51, 52, 53, 54, 55, 56, 57]
def printable_charset : RawTable := RawTable.explicit [65, 66, 67, 68, 69, 70, 71, 72, 73, 74, 75, 76, 77, 78, 79, 80, 81, 82, 83, 84, 85, 86, 87, 88, 89, 90, 97, 98, 99, 100, 101, 102, 103, 104, 105, 106, 107, 108, 109, 110, 111, 112, 113, 114, 115, 116, 117, 118, 119, 120, 121, 122, 48, 49, 50, 51, 52, 53, 54, 55, 56, 57, 32, 39, 40, 41, 43, 44, 45, 46, 47, 58, 61, 63]
def visible_charset : RawTable := RawTable.interval 32 126
def ia5_charset : RawTable := RawTable.interval 0 127
def any_charset : RawTable := RawTable.interval 0 65534

/-- `match self { .. }` of character_set: string type name ↦ table -/
def tableOf : String → RawTable
  | "NumericString" => numeric_charset
  | "VisibleString" => visible_charset
  | "PrintableString" => printable_charset
  | "IA5String" => ia5_charset
  | _ => any_charset

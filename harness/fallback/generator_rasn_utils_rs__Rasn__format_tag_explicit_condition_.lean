/-- `format_tag`: the tag is rendered `tag(explicit(class, n))` exactly when this holds -/
def formatTagExplicit (environment : TaggingEnvironment) : Bool :=
  (environment == TaggingEnvironment.Explicit)
def defaultStem : String := "generated"

def writePrimitives : List String := ["fs :: write", "write_all"]
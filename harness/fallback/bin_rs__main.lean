def cliSuffixes : List String := [".asn", ".asn1"]

def cliWalkRestricted : Bool := false

def cliDefaultDestination : List String := ["."]
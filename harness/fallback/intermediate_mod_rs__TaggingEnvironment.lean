inductive TaggingEnvironment where
  | Automatic
  | Implicit
  | Explicit
  deriving DecidableEq, Repr, Inhabited
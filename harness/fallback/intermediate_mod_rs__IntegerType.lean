inductive IntegerType where
  | Int8
  | Uint8
  | Int16
  | Uint16
  | Int32
  | Uint32
  | Int64
  | Uint64
  | Unbounded
  deriving DecidableEq, Repr, Inhabited
/-- `&module_default + &tag.environment` -/
def envAdd (self' rhs : TaggingEnvironment) : TaggingEnvironment :=
  (match self', rhs with | t, TaggingEnvironment.Automatic => t | _, t => t)
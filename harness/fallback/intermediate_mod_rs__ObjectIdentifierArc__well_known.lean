/-- `ObjectIdentifierArc::well_known(name, root)` -/
def wellKnown (name : Option String) (root : Option Nat) : Option Nat :=
  match root, name with
  | _, some "itu-t" => some 0
  | _, some "iso" => some 1
  | _, some "joint-iso-itu-t" => some 2
  | _, some "joint-iso-ccitt" => some 2
  | some 0, some "recommendation" => some 0
  | some 0, some "question" => some 1
  | some 0, some "administration" => some 2
  | some 0, some "network-operator" => some 3
  | some 0, some "identified-organization" => some 4
  | some 0, some "r-recommendation" => some 5
  | some 1, some "standard" => some 0
  | some 1, some "registration-authority" => some 1
  | some 1, some "member-body" => some 2
  | some 1, some "identified-organization" => some 3
  | _, _ => none

#!/bin/sh
# run every registered quick check on the current tree (refreshes evidence/*.json)
cd "$(dirname "$0")"
tier=${1:-quick}
rc=0
for p in $(python3 -c "import json;print(' '.join(c['property_id'] for c in json.load(open('MANIFEST.json'))['checks']))"); do
  ./check $p --tier $tier | tail -3 || rc=1
done
python3-vt - <<'PY'
import json,jsonschema,glob
s=json.load(open('/root/.vp/EVIDENCE.schema.json'))
for f in sorted(glob.glob('evidence/*.json')):
    e=json.load(open(f)); jsonschema.validate(e,s)
    c=e['coverage']; print(f, 'obligations', c['obligations'], 'discharged', c['discharged'], 'violations', e.get('violations'))
jsonschema.validate(json.load(open('MANIFEST.json')), json.load(open('/root/.vp/MANIFEST.schema.json')))
print('manifest+evidence valid')
PY
exit $rc
